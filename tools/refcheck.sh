#!/bin/bash
# usage: tools/refcheck.sh <patch.diff> [runs]  -- apply a (supposedly behaviour-preserving) change to a scratch
# worktree and run EVERY quick check against it through VERIF_REPO; any non-zero exit is an alarm to triage.
patch=$(readlink -f "$1"); runs=${2:-40000}
WT=/tmp/probe_repo
# one user of the scratch worktree at a time (apply .. check .. undo is one critical section)
exec 9>/tmp/probe_repo.lock; flock 9
cd /verif
[ -d $WT ] || git -C /repo worktree add -q --detach $WT HEAD
git -C $WT checkout -q -- . && git -C $WT apply "$patch" || { echo "patch does not apply"; exit 3; }
rc_all=0
for p in C05 C06 C07 C08 C10 C11 C12 C13 C14 C15 C16 C17; do
  out=$(VERIF_REPO=$WT VERIF_RUNS=$runs ./check $p quick 2>&1); rc=$?
  echo "$out" | grep -E "^violation|^VIOLATION|HARNESS|^error" | head -4
  echo "$p exit=$rc $(echo "$out" | tail -1)"
  [ $rc -ne 0 ] && rc_all=1
done
git -C $WT checkout -q -- .
echo "refcheck: $(basename $(dirname $patch))/$(basename $patch) => $rc_all"
exit $rc_all
