#!/usr/bin/env python3
"""Sensitivity probes: deliberate property-breaking edits (the "planned breakages"
of DESIGN.md) applied one at a time to a scratch worktree of /repo, each followed
by the quick check of the property it targets (run against the scratch tree
through VERIF_REPO), then undone.

usage: tools/probes.py [name-substring ...]     results -> /verif/seeded/_mine/probes.json
"""
import json
import os
import subprocess
import sys

HERE = os.path.dirname(os.path.dirname(os.path.abspath(__file__)))
WT = "/tmp/probe_repo"

# (name, property, file, old, new)
PROBES = [
    ("c05_n_from_current_record", "C05", "composition/src/oligo.rs",
     "let record = { records_arc_clone.lock().unwrap().next() };\n                        if let Some(record) = record {\n                            let kvec = self.vectorise_one(&record.seq);",
     "let record = { records_arc_clone.lock().unwrap().next() };\n                        if let Some(mut record) = record {\n                            record.n = records_arc_clone.lock().unwrap().current_record - 1;\n                            let kvec = self.vectorise_one(&record.seq);"),
    ("c05_header_offset_off_by_one", "C05", "composition/src/oligo.rs",
     "mm_slice.write_at(kvec_str.as_bytes(), start_pos + header_len);",
     "mm_slice.write_at(kvec_str.as_bytes(), start_pos + header_len.saturating_sub(1) + (header_len > 0 && record.n == 0) as usize);"),
    ("c05_buffer_clear_dropped", "C05", "composition/src/oligo.rs",
     "                        process_buffer(&buffer);\n                        buffer.clear();\n                        total = 0;",
     "                        process_buffer(&buffer);\n                        total = 0;"),
    ("c05_collect_by_mutex_push", "C05", "composition/src/oligo.rs",
     "                        .collect::<Vec<String>>()\n                        .join(\"\");\n                    out_buffer.write_all(result.as_bytes()).unwrap();\n                };",
     "                        .fold(Vec::new, |mut acc: Vec<String>, s| { acc.insert(0, s); acc })\n                        .map(|v| v.concat())\n                        .collect::<Vec<String>>()\n                        .join(\"\");\n                    out_buffer.write_all(result.as_bytes()).unwrap();\n                };"),
    ("c07_merge_skips_last_chunk", "C07", "counter/src/lib.rs",
     "for chunk in 0..self.chunks {",
     "for chunk in 0..self.chunks.max(2) - 1 + (self.chunks < 2) as u64 {"),
    ("c07_chunks_not_incremented_past_3", "C07", "counter/src/lib.rs",
     "            if records > 0 {\n                self.chunks += 1;",
     "            if records > 0 {\n                self.chunks = (self.chunks + 1).min(3);"),
    ("c07_delete_before_scan_done", "C07", "counter/src/lib.rs",
     "                        let file = fs::File::open(&path).unwrap();\n                        let buff = BufReader::new(file);",
     "                        let file = fs::File::open(&path).unwrap();\n                        let buff = BufReader::with_capacity(64, file);\n                        if delete && chunk > 0 {\n                            fs::write(&path, b\"\").unwrap();\n                        }"),
    # liveness: the outer loop ends only on a chunk pass that read nothing; counting
    # attempts instead of records makes every pass look productive
    ("c07_liveness_counts_attempts", "C07", "counter/src/lib.rs",
     "                        let record = { records_arc_clone.lock().unwrap().next() };\n                        if let Some(record) = record {\n                            pbar.inc(1);\n                            total_records_clone.fetch_add(1, Ordering::Acquire);",
     "                        let record = { records_arc_clone.lock().unwrap().next() };\n                        total_records_clone.fetch_add(1, Ordering::Acquire);\n                        if let Some(record) = record {\n                            pbar.inc(1);"),
    # a real (scc) lock held across a scheduling point: blocks the one simulator
    # thread; the worker watchdog turns it into a stuck-run report
    ("c07_guard_held_across_map_op", "C07", "counter/src/lib.rs",
     "                                    counts_table_arc_clone\n                                        .get_unchecked((min_mer % self.n_parts) as usize)\n                                        .entry(min_mer)\n                                        .and_modify(|v| *v += 1)\n                                        .or_insert(1);",
     "                                    let m = counts_table_arc_clone\n                                        .get_unchecked((min_mer % self.n_parts) as usize);\n                                    match m.get(&min_mer) {\n                                        Some(mut e) => {\n                                            let _ = m.len();\n                                            *e.get_mut() += 1;\n                                        }\n                                        None => {\n                                            let _ = m.insert(min_mer, 1);\n                                        }\n                                    }"),
    # only visible when one k-mer occurs more than 65 535 times
    ("c07_count_wraps_at_16_bits", "C07", "counter/src/lib.rs",
     ".and_modify(|v| *v += 1)",
     ".and_modify(|v| *v = (*v + 1) & 0xFFFF)"),
    ("c08_bin_by_ceil", "C08", "coverage/src/lib.rs",
     "(count as f64 / self.bin_size as f64).floor() as usize",
     "(count as f64 / self.bin_size as f64).ceil() as usize"),
    ("c08_forward_kmer_lookup", "C08", "coverage/src/lib.rs",
     "let count = *counts.get(&min_mer).unwrap_or(&0);",
     "let count = *counts.get(&fmer).unwrap_or(&0); let _ = min_mer;"),
    ("c08_batch_rows_reversed_when_many", "C08", "coverage/src/lib.rs",
     "                    let result = buffer\n                        .par_iter()\n                        .map(|seq| {\n                            let kvec = self.vectorise_one(&seq.seq, &counts);\n                            let kvec_str: Vec<String> = kvec",
     "                    if buffer.len() > 2 { buffer.swap(0, 1); }\n                    let result = buffer\n                        .par_iter()\n                        .map(|seq| {\n                            let kvec = self.vectorise_one(&seq.seq, &counts);\n                            let kvec_str: Vec<String> = kvec"),
    ("c10_id_and_runs_two_locks", "C10", "misc/src/minimisers.rs",
     "                        let mut mins = Vec::new();\n                        mins.push(record.id);",
     "                        let mut mins = Vec::new();\n                        {\n                            let mut g = buff_clone.lock().unwrap();\n                            g.write_all(record.id.as_bytes()).unwrap();\n                        }\n                        mins.push(String::new());"),
    ("c10_get_then_insert", "C10", "misc/src/minimisers.rs",
     "                            result_arc_clone\n                                .entry(numeric_to_kmer(k, msize))\n                                .and_modify(|v| v.push((record.id.clone(), s, e)))\n                                .or_insert(vec![(record.id.clone(), s, e)]);",
     "                            let key = numeric_to_kmer(k, msize);\n                            let mut cur = result_arc_clone.read(&key, |_, v| v.clone()).unwrap_or_default();\n                            cur.push((record.id.clone(), s, e));\n                            result_arc_clone.upsert(key, cur);"),
    # only reachable with >= 10 000 records (the progress tick)
    ("c10_progress_tick_skips_record", "C10", "misc/src/minimisers.rs",
     "                        let mut mins = Vec::new();\n                        mins.push(record.id);",
     "                        if (record.n + 1) % 10000 == 0 {\n                            continue;\n                        }\n                        let mut mins = Vec::new();\n                        mins.push(record.id);"),
    ("c11_flush_before_push", "C11", "composition/src/cgr.rs",
     "                for record in records {\n                    total += record.seq.len();\n                    buffer.push(record);\n\n                    if total >= self.memory {\n                        process_buffer(&buffer);\n                        buffer.clear();\n                        total = 0;\n                    }\n                }",
     "                for record in records {\n                    total += record.seq.len();\n                    if total >= self.memory {\n                        process_buffer(&buffer);\n                        buffer.clear();\n                        total = 0;\n                        continue;\n                    }\n                    buffer.push(record);\n                }"),
    ("c11_lowercase_u_to_a", "C11", "composition/src/cgr.rs",
     "(b'u', cgr_t), // Uracil/Thymine",
     "(b'u', cgr_a), // Uracil/Thymine"),
    ("c11_error_swallowed", "C11", "composition/src/cgr.rs",
     "let kvec = self.vectorise_one(&seq.seq).unwrap();\n                            let kvec_str: Vec<String> = kvec\n                                .iter()\n                                .map(|val| format!(\"({},{})\", val.0, val.1))",
     "let kvec = self.vectorise_one(&seq.seq).unwrap_or_default();\n                            let kvec_str: Vec<String> = kvec\n                                .iter()\n                                .map(|val| format!(\"({},{})\", val.0, val.1))"),
    ("c12_zip_reversed_freqs", "C12", "composition/src/oligocgr.rs",
     "for (kmer, freq) in self.kmers.iter().zip(freqs.iter()) {",
     "for (kmer, freq) in self.kmers.iter().zip(freqs.iter().rev()) {"),
    ("c12_norm_by_length", "C12", "composition/src/oligocgr.rs",
     "vec.iter_mut().for_each(|el| *el /= f64::max(1_f64, total));\n        }\n        vec\n    }\n\n    fn cgr_maps",
     "vec.iter_mut().for_each(|el| *el /= f64::max(1_f64, seq.len() as f64)); let _ = total;\n        }\n        vec\n    }\n\n    fn cgr_maps"),
    ("c14_start_pos_n_plus_one_when_header", "C14", "composition/src/oligo.rs",
     "let start_pos = kvec_str.len() * record.n;",
     "let start_pos = kvec_str.len() * (record.n + (header_len > 0 && self.ksize == 2) as usize);"),
    ("c14_partition_index_plus_one", "C14", "counter/src/lib.rs",
     ".get_unchecked((min_mer % self.n_parts) as usize)",
     ".get_unchecked((min_mer % (self.n_parts + 1)) as usize)"),
    ("c17_vectors_file_append", "C17", "coverage/src/lib.rs",
     "let file = File::create(vec_path).unwrap();",
     "let file = fs::OpenOptions::new().create(true).append(true).open(vec_path).unwrap();"),
    ("c17_merge_reads_every_chunk_file_found", "C17", "counter/src/lib.rs",
     "for chunk in 0..self.chunks {",
     "for chunk in 0..(0..64u64).take_while(|c| std::path::Path::new(&format!(\"{}/temp_kmers.part_{}_chunk_{}\", self.out_dir, part, c)).exists()).count().max(self.chunks as usize) as u64 {"),
    ("c17_minimiser_output_append", "C17", "misc/src/minimisers.rs",
     "let outf = fs::File::create(out_path).unwrap();\n    let buff = Arc::new(Mutex::new(BufWriter::new(outf)));",
     "let outf = fs::OpenOptions::new().create(true).write(true).open(out_path).unwrap();\n    let buff = Arc::new(Mutex::new(BufWriter::new(outf)));"),
    # not reachable through the CLI (memory >= 6 GB => the buffer is never empty after the first
    # record), hence not a C16 violation; it is a C08 one (library, memory < 1.0)
    ("c08_cov_empty_record_dropped_after_flush", "C08", "coverage/src/lib.rs",
     "                for record in records {\n                    total += record.seq.len();\n                    buffer.push(record);",
     "                for record in records {\n                    if record.seq.is_empty() && record.n > 0 && buffer.is_empty() {\n                        continue;\n                    }\n                    total += record.seq.len();\n                    buffer.push(record);"),
    ("c15_tsv_preset_is_space_for_cov", "C15", "kmertools/src/args.rs",
     "                VecFmtPreset::Tsv => cov.set_delim(\"\\t\".to_owned()),",
     "                VecFmtPreset::Tsv => cov.set_delim(\" \".to_owned()),"),
    ("c15_ctr_k_range_admits_32", "C15", "kmertools/src/args.rs",
     "value_parser = clap::value_parser!(u64).range(10..32))]",
     "value_parser = clap::value_parser!(u64).range(10..=32))]"),
    ("c06_fastq_numbering_skips", "C06", "ktio/src/seq.rs",
     "                    let record = record.unwrap();\n                    self.current_record += 1;\n                    return Some(Sequence {\n                        n: self.current_record - 1,\n                        id: record.id().to_string(),\n                        seq: record.seq().to_vec(),\n                    });\n                }\n                None\n            }\n            RecordSet::Fasta",
     "                    let record = record.unwrap();\n                    self.current_record += 1 + (self.current_record == 5) as usize;\n                    return Some(Sequence {\n                        n: self.current_record - 1,\n                        id: record.id().to_string(),\n                        seq: record.seq().to_vec(),\n                    });\n                }\n                None\n            }\n            RecordSet::Fasta"),
    ("c06_fna_suffix_dropped", "C06", "ktio/src/seq.rs",
     "path.ends_with(\".fasta\") || path.ends_with(\".fa\") || path.ends_with(\".fna\")",
     "path.ends_with(\".fasta\") || path.ends_with(\".fa\")"),
    ("c13_cgr_batch_error_to_panic", "C13", "pybindings/src/cgr.rs",
     "            .map(|seq| self.vectorise_one(seq))\n            .collect()",
     "            .map(|seq| Ok(self.vectorise_one(seq).unwrap()))\n            .collect()"),
]


def sh(cmd, **kw):
    return subprocess.run(cmd, shell=True, stdout=subprocess.PIPE, stderr=subprocess.STDOUT, text=True, **kw)


def main():
    sel = sys.argv[1:]
    if not os.path.isdir(WT):
        r = sh(f"git -C /repo worktree add -q --detach {WT} HEAD")
        if r.returncode != 0:
            print(r.stdout)
            return 2
    results = {}
    out_path = os.path.join(HERE, "seeded", "_mine", "probes.json")
    if os.path.exists(out_path):
        results = json.load(open(out_path))
    env = dict(os.environ, VERIF_REPO=WT, VERIF_RUNS=os.environ.get("VERIF_RUNS", "32000"))
    import fcntl
    lock = open("/tmp/probe_repo.lock", "w")
    for (name, prop, path, old, new) in PROBES:
        if sel and not any(s in name for s in sel):
            continue
        # one user of the scratch worktree at a time (edit .. check .. undo)
        fcntl.flock(lock, fcntl.LOCK_EX)
        sh(f"git -C {WT} checkout -- .")
        f = os.path.join(WT, path)
        s = open(f).read()
        if s.count(old) != 1:
            print(f"{name}: pattern occurs {s.count(old)} times -- skipped")
            results[name] = {"property": prop, "result": "pattern-mismatch"}
            fcntl.flock(lock, fcntl.LOCK_UN)
            continue
        open(f, "w").write(s.replace(old, new))
        diff = sh(f"git -C {WT} diff").stdout
        r = subprocess.run(["./check", prop, "quick"], cwd=HERE, env=env, stdout=subprocess.PIPE, stderr=subprocess.STDOUT, text=True)
        lines = r.stdout.strip().splitlines()
        viol = [l for l in lines if l.startswith("violation:")]
        results[name] = {
            "property": prop,
            "exit": r.returncode,
            "result": {0: "MISSED", 1: "caught", 2: "harness-error"}.get(r.returncode, "?"),
            "first_violation": viol[0][:300] if viol else "",
            "summary": lines[-1] if lines else "",
            "diff": diff,
        }
        print(f"{name} [{prop}]: {results[name]['result']}  {viol[0][:160] if viol else (lines[-1] if lines else '')}")
        json.dump(results, open(out_path, "w"), indent=1)
        sh(f"git -C {WT} checkout -- .")
        fcntl.flock(lock, fcntl.LOCK_UN)
    sh(f"git -C {WT} checkout -- .")
    return 0


if __name__ == "__main__":
    sys.exit(main())
