#!/bin/bash
# usage: tools/verify_seed2.sh <worktree> <outdir> <crate> <testfile>...
wt=$1; out=$2; crate=$3; shift 3
cd $wt || exit 3
git status --short
mkdir -p $crate/tests
for tf in "$@"; do cp $out/demo/$tf $crate/tests/; done
for tf in "$@"; do name=${tf%.rs}
echo "--- $name WITH patch (expect FAILED)"
cargo test --offline -p $crate --test $name 2>&1 | grep -E "^test result|panicked at" | head -3
done
git apply -R $out/patch.diff || exit 3
for tf in "$@"; do name=${tf%.rs}
echo "--- $name WITHOUT patch (expect ok)"
cargo test --offline -p $crate --test $name 2>&1 | grep -E "^test result|panicked at" | head -3
done
git apply $out/patch.diff
rm -r $crate/tests
echo "--- existing suite WITH patch"
cargo test --workspace --offline 2>&1 | grep -E "^test result" | awk '{p+=$4; f+=$6} END {print "passed",p,"failed",f}'
