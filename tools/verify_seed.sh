#!/bin/bash
# usage: tools/verify_seed.sh <ID> <crate> [test file name]   -- confirm a sub-agent's three claims in its scratch worktree
id=$1; crate=$2; tf=${3:-seeded_demo.rs}
wt=/tmp/seed_$id; out=/tmp/seed_${id}_out
cd $wt || exit 3
git status --short
mkdir -p $crate/tests && cp $out/demo/$tf $crate/tests/
name=${tf%.rs}
echo "--- demo WITH patch (expect FAILED)"
cargo test --offline -p $crate --test $name 2>&1 | grep -E "^test result|panicked at" | head -4
git apply -R $out/patch.diff || exit 3
echo "--- demo WITHOUT patch (expect ok)"
cargo test --offline -p $crate --test $name 2>&1 | grep -E "^test result|panicked at" | head -4
git apply $out/patch.diff
rm -r $crate/tests
echo "--- existing suite WITH patch"
cargo test --workspace --offline 2>&1 | grep -E "^test result" | awk '{p+=$4; f+=$6} END {print "passed",p,"failed",f}'
