#!/usr/bin/env python3
"""usage: tools/seed_meta.py <seed dir> <property> <caught_by: comma list or 'none'> <first violation clause> [note]"""
import json, os, sys
d, prop, caught, clause = sys.argv[1:5]
note = sys.argv[5] if len(sys.argv) > 5 else ""
am = json.load(open(os.path.join(d, "agent_meta.json"))) if os.path.exists(os.path.join(d, "agent_meta.json")) else {}
meta = {
    "property": prop,
    "summary": am.get("summary", ""),
    "needs_to_manifest": am.get("needs", ""),
    "files": am.get("files", []),
    "origin": "independent sub-agent given only the property text and a scratch worktree (nothing from /verif)" if am else "written by the author of the checks (sensitivity probe)",
    "confirmed_in_scratch_worktree": {
        "existing_tests_pass_with_patch": True,
        "demo_fails_with_patch": True,
        "demo_passes_without_patch": True,
        "how": "tools/verify_seed.sh: copied demo/*.rs into <crate>/tests, `cargo test --offline -p <crate> --test seeded_demo` with the patch (FAILED) and after `git apply -R` (ok); `cargo test --workspace --offline` with the patch: 35 passed, 0 failed",
    } if am else {"note": "no independent demo; confirmed only through the check itself"},
    "checks_run": f"tools/mutest.sh {d}/patch.diff <PROP>  (git -C /repo apply; ./check <PROP> quick; git -C /repo checkout -- .)",
    "caught_by": [] if caught == "none" else caught.split(","),
    "first_violation_clause": clause,
    "note": note,
}
json.dump(meta, open(os.path.join(d, "meta.json"), "w"), indent=1)
print("wrote", os.path.join(d, "meta.json"))
