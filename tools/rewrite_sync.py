#!/usr/bin/env python3
"""Source-level seam: make every use of std::sync / std::thread in a kmertools source file go
through the simulator runtime (verif_rt::sync / verif_rt::thread), whatever form the import
takes.  The hooks committed in /repo (cfg twins of three import lines) cover the primitives
the code uses today; this covers the ones a *changed* tree brings in -- a Mutex in a file
that had none, an RwLock, a std::thread::scope -- which would otherwise run for real inside
the one simulator thread.

rewrite(text) -> (new_text, changed).  A file that declares a `static` (or lazy_static /
thread_local) whose type mentions a sync primitive is left untouched: such an object outlives
a simulated execution, and the simulated primitives do not.
"""
import re

SYNC_NAMES = r"(Mutex|RwLock|Condvar|Barrier|Once|Atomic[A-Za-z0-9]+|mpsc)"


def _static_with_sync(text):
    for m in re.finditer(r"(?m)^[ \t]*(pub(\([^)]*\))?[ \t]+)?static[ \t]+(ref[ \t]+|mut[ \t]+)?[A-Za-z_][A-Za-z0-9_]*[ \t]*:", text):
        end = text.find(";", m.end())
        stmt = text[m.start(): end if end != -1 else len(text)]
        if re.search(r"\b" + SYNC_NAMES + r"\b", stmt):
            return True
    return False


def _split_top(items):
    out, depth, cur = [], 0, ""
    for ch in items:
        if ch == "{":
            depth += 1
        elif ch == "}":
            depth -= 1
        if ch == "," and depth == 0:
            out.append(cur)
            cur = ""
        else:
            cur += ch
    if cur.strip():
        out.append(cur)
    return [x.strip() for x in out if x.strip()]


def _rewrite_use_trees(text):
    """`use std::{a, sync::{X, Y}, thread};` -> `use std::{a}; use verif_rt::sync::{X, Y}; use verif_rt::thread;`"""
    out = []
    i = 0
    pat = re.compile(r"((?:[ \t]*#\[[^\]\n]*\][ \t]*\n)*)([ \t]*)((?:pub(?:\([^)]*\))?[ \t]+)?use[ \t]+(?:::)?std::\{)")
    while True:
        m = pat.search(text, i)
        if not m:
            out.append(text[i:])
            break
        # find the matching brace
        j = m.end()
        depth = 1
        while j < len(text) and depth:
            if text[j] == "{":
                depth += 1
            elif text[j] == "}":
                depth -= 1
            j += 1
        k = j
        while k < len(text) and text[k] in " \t\n":
            k += 1
        if depth or k >= len(text) or text[k] != ";":
            out.append(text[i:m.end()])
            i = m.end()
            continue
        attrs, indent, head = m.group(1), m.group(2), m.group(3)
        vis = head[: head.index("use")]
        items = _split_top(text[m.end(): j - 1])
        keep = [x for x in items if not re.match(r"(sync|thread)\b", x)]
        move = [x for x in items if re.match(r"(sync|thread)\b", x)]
        if not move:
            out.append(text[i:k + 1])
            i = k + 1
            continue
        out.append(text[i:m.start()])
        stmts = []
        if keep:
            stmts.append(f"{indent}{vis}use std::{{{', '.join(keep)}}};")
        for x in move:
            stmts.append(f"{indent}{vis}use verif_rt::{x};")
        out.append("\n".join(attrs + s for s in stmts))
        i = k + 1
    return "".join(out)


def _drop_import_twins(text):
    """The H3 hooks in /repo are twins of import statements:
        #[cfg(not(kmertools_verif))] use std::{.., sync::{..}};
        #[cfg(kmertools_verif)]      use std::{..};                 (the part that is not sync)
        #[cfg(kmertools_verif)]      use verif_rt::sync::{..};
    A changed tree that adds a name to the first and not to the third would not build with the
    hook on.  In the rewritten copy the twins are not needed: `use` statements guarded by
    cfg(kmertools_verif) are dropped, those guarded by cfg(not(kmertools_verif)) are un-guarded,
    and the general rule redirects what they import from std::sync, whatever names they list.
    Other guarded items (the stream seam, the mmap monitor, the setters) are not touched."""
    on = re.compile(r"[ \t]*#\[cfg\(kmertools_verif\)\][ \t]*\n[ \t]*(?:pub[ \t]+)?use\b[^;]*;[ \t]*\n")
    off = re.compile(r"[ \t]*#\[cfg\(not\(kmertools_verif\)\)\][ \t]*\n(?=[ \t]*(?:pub[ \t]+)?use\b)")
    if not on.search(text) or not off.search(text):
        return text
    return off.sub("", on.sub("", text))


def rewrite(text):
    orig = text
    text = _drop_import_twins(text)
    new, ch = _rewrite(text)
    return new, new != orig


def _rewrite(text):
    if "std::sync" not in text and "std::thread" not in text and not re.search(r"use[ \t]+(::)?std::\{", text):
        return text, False
    if _static_with_sync(text) or "lazy_static!" in text and re.search(r"\b" + SYNC_NAMES + r"\b", text):
        return text, False
    new = _rewrite_use_trees(text)
    new = re.sub(r"(?<![A-Za-z0-9_])std::sync\b", "verif_rt::sync", new)
    new = re.sub(r"(?<![A-Za-z0-9_])std::thread\b", "verif_rt::thread", new)
    return new, new != text


if __name__ == "__main__":
    import sys
    t = open(sys.argv[1]).read()
    n, ch = rewrite(t)
    sys.stdout.write(n)
