#!/usr/bin/env python3
"""Re-run every filed seeded change against the check(s) recorded in its meta.json
(`caught_by`), on the scratch worktree; prints one line per (seed, property) and a summary.
usage: tools/reseed_all.py [substring ...]      log -> stdout"""
import glob, json, os, subprocess, sys
HERE = os.path.dirname(os.path.dirname(os.path.abspath(__file__)))
sel = sys.argv[1:]
bad = 0
n = 0
for d in sorted(glob.glob(os.path.join(HERE, "seeded", "C*-*"))):
    name = os.path.basename(d)
    if sel and not any(s in name for s in sel):
        continue
    mp = os.path.join(d, "meta.json")
    if not os.path.exists(mp):
        print(f"{name}: no meta.json", flush=True)
        continue
    m = json.load(open(mp))
    for prop in m.get("caught_by", []):
        r = subprocess.run([os.path.join(HERE, "tools", "mutest_wt.sh"), os.path.join(d, "patch.diff"), prop],
                           stdout=subprocess.PIPE, stderr=subprocess.STDOUT, text=True)
        last = [l for l in r.stdout.strip().splitlines() if l.startswith(("mutest_wt:", "patch does not"))]
        summ = [l for l in r.stdout.strip().splitlines() if " quick: runs=" in l]
        n += 1
        ok = r.returncode == 1
        bad += 0 if ok else 1
        print(f"{'ok  ' if ok else 'MISS'} {name} {prop} exit={r.returncode} {summ[-1] if summ else ''} {last[-1] if last else ''}", flush=True)
print(f"reseed_all: {n} runs, {bad} not reported")
sys.exit(1 if bad else 0)
