#!/bin/bash
# like mutest.sh, but on a scratch worktree through VERIF_REPO (does not touch /repo)
patch=$(readlink -f "$1"); prop=$2; runs=${3:-}
WT=/tmp/probe_repo
# one user of the scratch worktree at a time (apply .. check .. undo is one critical section)
exec 9>/tmp/probe_repo.lock; flock 9
cd /verif
[ -d $WT ] || git -C /repo worktree add -q --detach $WT HEAD
git -C $WT checkout -q -- . && git -C $WT apply "$patch" || { echo "patch does not apply"; exit 3; }
if [ -n "$runs" ]; then VERIF_REPO=$WT VERIF_RUNS=$runs ./check "$prop" quick; else VERIF_REPO=$WT ./check "$prop" quick; fi
rc=$?
git -C $WT checkout -q -- .
echo "mutest_wt: $(basename $(dirname $patch)) $prop => exit $rc"
exit $rc
