#!/bin/bash
# usage: tools/process_round.sh <round-number> <ID> <crate> <dir-name>  -- verify a sub-agent's seed, file it, run the property's quick check on it
r=$1; id=$2; crate=$3; name=$4
wt=/tmp/seed${r}_$id; out=/tmp/seed${r}_${id}_out
cd /verif
same=$(git -C $wt diff | diff -q - $out/patch.diff >/dev/null && echo same || echo DIFFERENT)
echo "=== $id ($name): worktree diff vs patch.diff: $same"
if [ -f $out/demo/seeded_demo.rs ]; then
  tools/verify_seed2.sh $wt $out $crate seeded_demo.rs 2>&1 | grep -E "test result|^passed|panicked at" | head -6
else
  echo "(no seeded_demo.rs: verify by hand: $(ls $out/demo | tr '\n' ' '))"
fi
d=seeded/$id-$name; mkdir -p $d; cp $out/patch.diff $d/; cp -r $out/demo $d/; cp $out/meta.json $d/agent_meta.json
tools/mutest_wt.sh $d/patch.diff $id 2>&1 | grep -v "^build ok" | tail -2
