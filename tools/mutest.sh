#!/bin/bash
# usage: tools/mutest.sh <patch.diff> <PROP> [runs]   -- apply a seeded change to /repo, run the quick check, undo it
set -u
patch=$(readlink -f "$1"); prop=$2; runs=${3:-}
cd /verif
if ! git -C /repo diff --quiet; then echo "/repo is dirty"; exit 3; fi
git -C /repo apply "$patch" || { echo "patch does not apply"; exit 3; }
if [ -n "$runs" ]; then VERIF_RUNS=$runs ./check "$prop" quick; else ./check "$prop" quick; fi
rc=$?
git -C /repo checkout -- .
git -C /repo status --short
echo "mutest: $(basename $patch) $prop => exit $rc"
exit $rc
