#!/usr/bin/env python3
"""For schedule-dependent seeded changes: how often does each scheduler kind hit the
violation?  Applies each patch to a scratch worktree and runs the property's quick check
with KMSIM_SCHED_ONLY=<kind>; reports violating runs per 16 000 runs.
Output: seeded/_mine/sched_effect.json"""
import json, os, subprocess, sys
HERE = os.path.dirname(os.path.dirname(os.path.abspath(__file__)))
WT = "/tmp/probe_repo"
SEEDS = [
    ("seeded/_mine/c05_completion_counter.diff", "C05"),
    ("seeded/C05-fifo-batches-completion-order/patch.diff", "C05"),
    ("seeded/C07-recheck-drops-record/patch.diff", "C07"),
    ("seeded/C07-partfile-number-race/patch.diff", "C07"),
    ("seeded/_mine/c07_read_then_upsert.diff", "C07"),
    ("seeded/C10-s2m-line-spill/patch.diff", "C10"),
    ("seeded/C10-m2s-update-then-upsert/patch.diff", "C10"),
    ("seeded/C14-gathered-rows-overlap/patch.diff", "C14"),
]
def sh(c): return subprocess.run(c, shell=True, stdout=subprocess.PIPE, stderr=subprocess.STDOUT, text=True)
def main():
    if not os.path.isdir(WT):
        sh(f"git -C /repo worktree add -q --detach {WT} HEAD")
    res = {}
    for patch, prop in SEEDS:
        sh(f"git -C {WT} checkout -q -- .")
        r = sh(f"git -C {WT} apply {os.path.join(HERE, patch)}")
        if r.returncode != 0:
            print("cannot apply", patch, r.stdout); continue
        row = {}
        for kind in (os.environ.get("KINDS") or "random,sticky,pct,stall").split(","):
            env = dict(os.environ, VERIF_REPO=WT, VERIF_RUNS="16000", KMSIM_SCHED_ONLY=kind)
            subprocess.run(["./check", prop, "quick"], cwd=HERE, env=env, stdout=subprocess.DEVNULL, stderr=subprocess.DEVNULL)
            ev = json.load(open(os.path.join(HERE, "evidence", f"{prop}.json")))
            row[kind] = {"runs": ev["coverage"]["evaluations"], "violating_runs": ev["coverage"].get("violating_runs", 0)}
        res[patch] = {"property": prop, **row}
        print(patch, {k: f"{v['violating_runs']}/{v['runs']}" for k, v in row.items()}, flush=True)
        json.dump(res, open(os.path.join(HERE, "seeded", "_mine", os.environ.get("OUTNAME", "sched_effect.json")), "w"), indent=1)
    sh(f"git -C {WT} checkout -q -- .")
main()
