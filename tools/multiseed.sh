#!/bin/bash
# usage: tools/multiseed.sh <tier> <seed>...   -- every claimed check on the current tree under several VERIF_SEED values
# (false-alarm hunt: anything but exit 0 on the unchanged tree is a mistake of the machinery or a genuine defect)
tier=$1; shift
cd /verif
for seed in "$@"; do
  for p in C05 C06 C07 C08 C10 C11 C12 C13 C14 C15 C16 C17; do
    VERIF_SEED=$seed ./check $p $tier 2>&1 | grep -v "^build ok" | grep -v "^WARNING conda" | sed "s/^/seed=$seed /" | tail -4
  done
done
