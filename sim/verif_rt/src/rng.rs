//! Small, dependency-free, stable PRNG: every choice in a run derives from one
//! integer through this generator (never from a clock, address or OS source).

#[inline]
pub fn splitmix64(state: &mut u64) -> u64 {
    *state = state.wrapping_add(0x9E37_79B9_7F4A_7C15);
    let mut z = *state;
    z = (z ^ (z >> 30)).wrapping_mul(0xBF58_476D_1CE4_E5B9);
    z = (z ^ (z >> 27)).wrapping_mul(0x94D0_49BB_1331_11EB);
    z ^ (z >> 31)
}

/// Mix several integers into one seed.
pub fn mix(parts: &[u64]) -> u64 {
    let mut s = 0x6A09_E667_F3BC_C908u64;
    let mut out = 0u64;
    for &p in parts {
        s ^= p;
        out = splitmix64(&mut s) ^ out.rotate_left(17);
    }
    let mut t = out;
    splitmix64(&mut t)
}

pub fn hash_str(s: &str) -> u64 {
    // FNV-1a
    let mut h = 0xcbf2_9ce4_8422_2325u64;
    for b in s.bytes() {
        h ^= b as u64;
        h = h.wrapping_mul(0x100_0000_01b3);
    }
    h
}

pub fn hash_bytes(bytes: &[u8]) -> u64 {
    let mut h = 0xcbf2_9ce4_8422_2325u64;
    for &b in bytes {
        h ^= b as u64;
        h = h.wrapping_mul(0x100_0000_01b3);
    }
    h
}

/// xoshiro256**
#[derive(Clone, Debug)]
pub struct Rng {
    s: [u64; 4],
}

impl Rng {
    pub fn new(seed: u64) -> Self {
        let mut sm = seed;
        let s = [
            splitmix64(&mut sm),
            splitmix64(&mut sm),
            splitmix64(&mut sm),
            splitmix64(&mut sm),
        ];
        Rng { s }
    }

    /// Independent stream derived from this seed and a label.
    pub fn derive(seed: u64, label: &str) -> Self {
        Rng::new(mix(&[seed, hash_str(label)]))
    }

    #[inline]
    pub fn next_u64(&mut self) -> u64 {
        let result = self.s[1].wrapping_mul(5).rotate_left(7).wrapping_mul(9);
        let t = self.s[1] << 17;
        self.s[2] ^= self.s[0];
        self.s[3] ^= self.s[1];
        self.s[1] ^= self.s[2];
        self.s[0] ^= self.s[3];
        self.s[2] ^= t;
        self.s[3] = self.s[3].rotate_left(45);
        result
    }

    /// uniform in [0, n)  (n > 0)
    #[inline]
    pub fn below(&mut self, n: u64) -> u64 {
        debug_assert!(n > 0);
        // multiply-shift; bias is irrelevant here
        ((self.next_u64() as u128 * n as u128) >> 64) as u64
    }

    /// uniform in [lo, hi] inclusive
    #[inline]
    pub fn range(&mut self, lo: u64, hi: u64) -> u64 {
        debug_assert!(lo <= hi);
        lo + self.below(hi - lo + 1)
    }

    #[inline]
    pub fn usize(&mut self, lo: usize, hi: usize) -> usize {
        self.range(lo as u64, hi as u64) as usize
    }

    /// true with probability num/den
    #[inline]
    pub fn chance(&mut self, num: u64, den: u64) -> bool {
        self.below(den) < num
    }

    pub fn pick<'a, T>(&mut self, xs: &'a [T]) -> &'a T {
        &xs[self.below(xs.len() as u64) as usize]
    }

    /// index drawn with the given integer weights
    pub fn weighted(&mut self, weights: &[u64]) -> usize {
        let total: u64 = weights.iter().sum();
        let mut x = self.below(total);
        for (i, &w) in weights.iter().enumerate() {
            if x < w {
                return i;
            }
            x -= w;
        }
        weights.len() - 1
    }

    pub fn shuffle<T>(&mut self, xs: &mut [T]) {
        for i in (1..xs.len()).rev() {
            let j = self.below(i as u64 + 1) as usize;
            xs.swap(i, j);
        }
    }
}
