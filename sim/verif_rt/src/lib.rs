//! Simulator runtime shared by the harness, the rayon/scc stand-ins and the
//! cfg(kmertools_verif) hooks inside /repo.
//!
//! Everything here runs on ONE OS thread: shuttle executes the simulated
//! threads as coroutines of the thread that called `Runner::run`, so plain
//! `std::thread_local!` state is global to one simulated execution.

pub mod ctx;
pub mod io;
pub mod mmap;
pub mod rng;
pub mod sched;
mod sync_mutex;
pub use sync_mutex::release_deferred;

/// Scheduled replacements for `std::sync` used by the H3 hook.
pub mod sync {
    pub use crate::sync_mutex::{Condvar, Mutex, MutexGuard};
    pub use shuttle::sync::{
        Barrier, BarrierWaitResult, LockResult, Once, OnceState, PoisonError, RwLock,
        RwLockReadGuard, RwLockWriteGuard, TryLockError, TryLockResult, WaitTimeoutResult,
    };
    pub use std::sync::{Arc, LazyLock, OnceLock, Weak};
    pub mod atomic {
        pub use shuttle::sync::atomic::*;
    }
    pub mod mpsc {
        pub use shuttle::sync::mpsc::*;
    }
}

/// `std::thread` as the simulator sees it (tools/rewrite_sync.py sends `std::thread::...`
/// here): spawned and scoped threads are simulated tasks.
pub mod thread {
    pub use shuttle::thread::*;
    pub use std::thread::available_parallelism;
}

/// Payload of the panic used to model a run that is cut short (C17 history
/// generation). Never raised unless the harness armed it.
pub struct SimAbort;

/// Payload of the panic raised by a runtime monitor (e.g. a memory-mapped write
/// that would land outside the mapping) to stop the run *before* the undefined
/// behaviour executes.
pub struct MonitorStop(pub String);

/// A labelled fault point: the place where an armed "abort this run" fault
/// fires.  Does not yield.
pub fn fault_point(label: &'static str) {
    sync_mutex::release_deferred();
    let fire = ctx::with(|c| {
        c.stats.hook_events += 1;
        *c.stats.points.entry(label).or_insert(0) += 1;
        if c.aborting {
            return true;
        }
        if let Some(at) = c.abort_at {
            if c.stats.hook_events >= at {
                c.aborting = true;
                c.stats.aborts_fired += 1;
                return true;
            }
        }
        false
    });
    if fire && !std::thread::panicking() {
        std::panic::resume_unwind(Box::new(SimAbort));
    }
}

static REAL_GUARDS: std::sync::atomic::AtomicUsize = std::sync::atomic::AtomicUsize::new(0);

/// The running task holds a lock of a *real* (not simulated) primitive from now on --
/// a stand-in calls this when it hands out e.g. an scc entry guard.  While any such
/// guard is held the scheduler does not switch away from the task as long as it is
/// runnable: in the one OS thread of the simulator another task that wanted the same real
/// lock would block for good, although in a real run it would simply wait its turn.
pub fn real_guard_enter() {
    REAL_GUARDS.fetch_add(1, std::sync::atomic::Ordering::Relaxed);
}

pub fn real_guard_exit() {
    let _ = REAL_GUARDS.fetch_update(std::sync::atomic::Ordering::Relaxed, std::sync::atomic::Ordering::Relaxed, |v| Some(v.saturating_sub(1)));
}

pub fn real_guards_held() -> usize {
    REAL_GUARDS.load(std::sync::atomic::Ordering::Relaxed)
}

pub fn real_guards_reset() {
    REAL_GUARDS.store(0, std::sync::atomic::Ordering::Relaxed);
}

/// Token for one held real guard (counts up on creation, down on drop).
pub struct RealGuard(());

impl RealGuard {
    pub fn new() -> Self {
        real_guard_enter();
        RealGuard(())
    }
}

impl Default for RealGuard {
    fn default() -> Self {
        Self::new()
    }
}

impl Drop for RealGuard {
    fn drop(&mut self) {
        real_guard_exit();
    }
}

/// A labelled scheduling point: the simulated thread may be descheduled here
/// (also a fault point).
pub fn sched_point(label: &'static str) {
    fault_point(label);
    if ctx::in_sim() && !std::thread::panicking() {
        // sleep(0) is a plain switch point (yield_now would mark the task as
        // "yielding", which priority schedulers treat as a request to be
        // deprioritised).
        shuttle::thread::sleep(std::time::Duration::from_secs(0));
    }
}
