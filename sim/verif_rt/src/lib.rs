//! Simulator runtime shared by the harness, the rayon/scc stand-ins and the
//! cfg(kmertools_verif) hooks inside /repo.
//!
//! Everything here runs on ONE OS thread: shuttle executes the simulated
//! threads as coroutines of the thread that called `Runner::run`, so plain
//! `std::thread_local!` state is global to one simulated execution.

pub mod ctx;
pub mod io;
pub mod mmap;
pub mod rng;
pub mod sched;
mod sync_mutex;
pub use sync_mutex::release_deferred;

/// Scheduled replacements for `std::sync` used by the H3 hook.
pub mod sync {
    pub use crate::sync_mutex::{Condvar, Mutex, MutexGuard};
    pub use shuttle::sync::{
        Barrier, BarrierWaitResult, LockResult, Once, OnceState, PoisonError, RwLock,
        RwLockReadGuard, RwLockWriteGuard, TryLockError, TryLockResult, WaitTimeoutResult,
    };
    pub use std::sync::{Arc, Weak};
    pub mod atomic {
        pub use shuttle::sync::atomic::*;
    }
    pub mod mpsc {
        pub use shuttle::sync::mpsc::*;
    }
}

/// Payload of the panic used to model a run that is cut short (C17 history
/// generation). Never raised unless the harness armed it.
pub struct SimAbort;

/// Payload of the panic raised by a runtime monitor (e.g. a memory-mapped write
/// that would land outside the mapping) to stop the run *before* the undefined
/// behaviour executes.
pub struct MonitorStop(pub String);

/// A labelled fault point: the place where an armed "abort this run" fault
/// fires.  Does not yield.
pub fn fault_point(label: &'static str) {
    sync_mutex::release_deferred();
    let fire = ctx::with(|c| {
        c.stats.hook_events += 1;
        *c.stats.points.entry(label).or_insert(0) += 1;
        if c.aborting {
            return true;
        }
        if let Some(at) = c.abort_at {
            if c.stats.hook_events >= at {
                c.aborting = true;
                c.stats.aborts_fired += 1;
                return true;
            }
        }
        false
    });
    if fire && !std::thread::panicking() {
        std::panic::resume_unwind(Box::new(SimAbort));
    }
}

/// A labelled scheduling point: the simulated thread may be descheduled here
/// (also a fault point).
pub fn sched_point(label: &'static str) {
    fault_point(label);
    if ctx::in_sim() && !std::thread::panicking() {
        // sleep(0) is a plain switch point (yield_now would mark the task as
        // "yielding", which priority schedulers treat as a request to be
        // deprioritised).
        shuttle::thread::sleep(std::time::Duration::from_secs(0));
    }
}
