//! Seeded schedulers for shuttle, with a recorder and an exact replayer.
//!
//! One `SimScheduler` drives exactly one execution.  Every decision is logged
//! (chosen task id per step); `SchedSpec::Replay` follows such a log.

use crate::rng::Rng;
use shuttle::scheduler::{Schedule, Scheduler, Task, TaskId};
use std::sync::{Arc, Mutex};

#[derive(Clone, Debug, PartialEq)]
pub enum SchedSpec {
    /// always the runnable task with the lowest id (sequential-ish baseline)
    Fifo,
    /// uniform random walk over the runnable tasks
    Random { seed: u64 },
    /// keep running the current task with probability `stay`/16, otherwise a
    /// uniformly chosen runnable task
    Sticky { seed: u64, stay: u8 },
    /// PCT: random priorities, `depth-1` priority change points in [1, est_steps]
    Pct { seed: u64, depth: u32, est_steps: u64 },
    /// random walk that refuses to run a victim task for windows of steps
    Stall { seed: u64, window: u32 },
    /// one or two tasks are taken out of the running *while they are in the middle of
    /// something* (the task that is running at a drawn moment) and do not run again while
    /// anybody else can -- the others race ahead by as many records as there are; the
    /// victim runs only when everybody else is blocked (or spins), and is released after a
    /// drawn number of steps.  Everybody else is scheduled by a sticky random walk.
    Starve { seed: u64, est_steps: u64, victims: u8 },
    /// follow a recorded decision list exactly
    Replay { decisions: Vec<u32> },
}

impl SchedSpec {
    pub fn kind(&self) -> &'static str {
        match self {
            SchedSpec::Fifo => "fifo",
            SchedSpec::Random { .. } => "random",
            SchedSpec::Sticky { .. } => "sticky",
            SchedSpec::Pct { .. } => "pct",
            SchedSpec::Stall { .. } => "stall",
            SchedSpec::Starve { .. } => "starve",
            SchedSpec::Replay { .. } => "replay",
        }
    }
}

#[derive(Clone, Debug, Default)]
pub struct SchedLog {
    pub decisions: Vec<u32>,
    pub steps: u64,
    /// steps at which at least two tasks were runnable
    pub choice_steps: u64,
    pub context_switches: u64,
    pub preemptions: u64,
    pub max_task: u32,
    /// hash of (step-with-choice, chosen) pairs: identifies the interleaving
    pub schedule_hash: u64,
    pub stall_windows: u64,
    pub priority_changes: u64,
    /// starve scheduler: victims taken out, and steps at which a victim had to run
    /// because nobody else could
    pub starve_victims: u64,
    pub starve_forced_steps: u64,
    pub diverged: bool,
}

pub struct SimScheduler {
    spec: SchedSpec,
    rng: Rng,
    started: bool,
    log: Arc<Mutex<SchedLog>>,
    last: Option<u32>,
    // pct
    prio: Vec<u64>,
    change_points: Vec<u64>,
    low_next: u64,
    // stall
    victim: Option<u32>,
    stall_until: u64,
    // starve
    starve_starts: Vec<(u64, u64)>,
    starved: Vec<(u32, u64)>,
    yield_streak: u64,
}

impl SimScheduler {
    pub fn new(spec: SchedSpec) -> (Self, Arc<Mutex<SchedLog>>) {
        let log = Arc::new(Mutex::new(SchedLog::default()));
        let seed = match &spec {
            SchedSpec::Random { seed }
            | SchedSpec::Sticky { seed, .. }
            | SchedSpec::Pct { seed, .. }
            | SchedSpec::Stall { seed, .. }
            | SchedSpec::Starve { seed, .. } => *seed,
            _ => 0,
        };
        let mut rng = Rng::new(seed ^ 0x5ced_5ced_5ced_5ced);
        let mut change_points = Vec::new();
        if let SchedSpec::Pct { depth, est_steps, .. } = &spec {
            // change points are placed log-uniformly over [1, 4 x estimate]: the
            // number of decisions of a run is only known roughly beforehand, and a
            // log-uniform draw puts a point inside the run with fair probability
            // whether the run turns out ten times shorter or longer than guessed
            let hi = ((*est_steps).max(16) * 4) as f64;
            for _ in 1..*depth {
                let u = (rng.next_u64() >> 11) as f64 / (1u64 << 53) as f64;
                let p = hi.powf(u).floor() as u64;
                change_points.push(p.max(1));
            }
        }
        let mut starve_starts: Vec<(u64, u64)> = Vec::new();
        if let SchedSpec::Starve { est_steps, victims, .. } = &spec {
            // when a victim is taken (in steps with a choice, log-uniform over the estimated
            // length of the run: early moments are as likely as late ones on a log scale, so
            // "right at the start, with all the records still to come" is common), and for
            // how long (log-uniform between an eighth and eight times the estimate)
            let est = (*est_steps).max(16) as f64;
            let close = *victims & 16 != 0;
            for i in 0..(*victims & 15).max(1) {
                let u = (rng.next_u64() >> 11) as f64 / (1u64 << 53) as f64;
                let mut at = est.powf(u).floor() as u64;
                if close && i > 0 {
                    at = starve_starts[0].0 + 1 + rng.below(60);
                }
                let v = (rng.next_u64() >> 11) as f64 / (1u64 << 53) as f64;
                let len = (est / 8.0 * 64f64.powf(v)).floor() as u64;
                starve_starts.push((at.max(1), len.max(8)));
            }
            starve_starts.sort();
        }
        (
            SimScheduler {
                spec,
                rng,
                started: false,
                log: log.clone(),
                last: None,
                prio: Vec::new(),
                change_points,
                low_next: 1 << 20,
                victim: None,
                stall_until: 0,
                starve_starts,
                starved: Vec::new(),
                yield_streak: 0,
            },
            log,
        )
    }

    fn prio_of(&mut self, t: u32) -> u64 {
        while self.prio.len() <= t as usize {
            // larger value = lower priority; fresh tasks get a random slot
            let p = self.rng.below(1 << 20);
            self.prio.push(p);
        }
        self.prio[t as usize]
    }
}

impl Scheduler for SimScheduler {
    fn new_execution(&mut self) -> Option<Schedule> {
        if self.started {
            return None;
        }
        self.started = true;
        Some(Schedule::new(0))
    }

    fn next_task(
        &mut self,
        runnable: &[&Task],
        current: Option<TaskId>,
        is_yielding: bool,
    ) -> Option<TaskId> {
        let all_ids: Vec<u32> = runnable.iter().map(|t| usize::from(t.id()) as u32).collect();
        let cur = current.map(|c| usize::from(c) as u32);
        // A task that calls `thread::yield_now()` (a spin-wait in the code under test) asks
        // for somebody else to run: honour it whenever somebody else can, under every
        // scheduler.  Otherwise a priority schedule would starve the task the spinner waits
        // for, and a loop that ends under any fair scheduler would look like a livelock.
        let ids: Vec<u32> = match cur {
            Some(c) if is_yielding && all_ids.len() > 1 && !matches!(self.spec, SchedSpec::Replay { .. }) && crate::real_guards_held() == 0 => {
                all_ids.iter().copied().filter(|t| *t != c).collect()
            }
            _ => all_ids.clone(),
        };
        let (step, choice_step) = {
            let l = self.log.lock().unwrap();
            (l.steps, l.choice_steps)
        };
        let mut diverged = false;
        let mut stalls = 0u64;
        let mut prio_changes = 0u64;
        let mut starve_new = 0u64;
        let mut starve_forced = 0u64;
        let pinned = match cur {
            Some(c) if crate::real_guards_held() > 0 && ids.contains(&c) && !matches!(self.spec, SchedSpec::Replay { .. }) => Some(c),
            _ => None,
        };
        let chosen: u32 = if let Some(c) = pinned {
            // the running task holds a real lock (see `real_guard_enter`): no preemption
            c
        } else if ids.len() == 1 {
            if let SchedSpec::Replay { decisions } = &self.spec {
                if decisions.get(step as usize) != Some(&ids[0]) {
                    diverged = true;
                }
            }
            ids[0]
        } else {
            match self.spec.clone() {
                SchedSpec::Fifo => *ids.iter().min().unwrap(),
                SchedSpec::Random { .. } => ids[self.rng.below(ids.len() as u64) as usize],
                SchedSpec::Sticky { stay, .. } => {
                    let keep = self.rng.below(16) < stay as u64;
                    match cur {
                        Some(c) if keep && ids.contains(&c) => c,
                        _ => ids[self.rng.below(ids.len() as u64) as usize],
                    }
                }
                SchedSpec::Pct { .. } => {
                    // a task that yields (a spin-wait) drops below everybody else, as in
                    // shuttle's own PCT: otherwise two spinners of high priority hand the
                    // processor to each other for ever while the task they wait for, of
                    // lower priority, never runs -- a livelock of the scheduler's making
                    if is_yielding {
                        if let Some(c) = cur {
                            self.prio_of(c);
                            self.prio[c as usize] = self.low_next;
                            self.low_next += 1;
                        }
                    }
                    if self.change_points.contains(&(choice_step + 1)) {
                        if let Some(c) = cur {
                            self.prio_of(c);
                            self.prio[c as usize] = self.low_next;
                            self.low_next += 1;
                            prio_changes += 1;
                        }
                    }
                    let mut best = ids[0];
                    let mut bestp = u64::MAX;
                    for &t in &ids {
                        let p = self.prio_of(t);
                        if p < bestp || (p == bestp && t < best) {
                            best = t;
                            bestp = p;
                        }
                    }
                    best
                }
                SchedSpec::Stall { window, .. } => {
                    if self.victim.is_some() && step >= self.stall_until {
                        self.victim = None;
                    }
                    if self.victim.is_none() && self.rng.chance(1, 12) {
                        self.victim = Some(ids[self.rng.below(ids.len() as u64) as usize]);
                        self.stall_until = step + self.rng.range(window as u64 / 2 + 1, window as u64 * 2 + 1);
                        stalls += 1;
                    }
                    let cands: Vec<u32> = ids
                        .iter()
                        .copied()
                        .filter(|t| Some(*t) != self.victim)
                        .collect();
                    if cands.is_empty() {
                        ids[0]
                    } else {
                        // prefer to keep going with the current task half of the time
                        match cur {
                            Some(c) if cands.contains(&c) && self.rng.chance(1, 2) => c,
                            _ => cands[self.rng.below(cands.len() as u64) as usize],
                        }
                    }
                }
                SchedSpec::Starve { .. } => {
                    self.starved.retain(|(_, until)| step < *until);
                    while let Some(&(at, len)) = self.starve_starts.first() {
                        if choice_step + 1 < at {
                            break;
                        }
                        self.starve_starts.remove(0);
                        // the task that is running right now is in the middle of something;
                        // the main task (0) mostly waits for the others and is a victim
                        // only now and then
                        let free: Vec<u32> = all_ids
                            .iter()
                            .copied()
                            .filter(|t| !self.starved.iter().any(|(v, _)| v == t))
                            .collect();
                        let workers: Vec<u32> = free.iter().copied().filter(|t| *t != 0).collect();
                        let pick = match cur {
                            Some(c) if c != 0 && free.contains(&c) && self.rng.chance(4, 5) => Some(c),
                            _ if !workers.is_empty() && !self.rng.chance(1, 10) => Some(workers[self.rng.below(workers.len() as u64) as usize]),
                            _ if !free.is_empty() => Some(free[self.rng.below(free.len() as u64) as usize]),
                            _ => None,
                        };
                        if let Some(v) = pick {
                            self.starved.push((v, step.saturating_add(len)));
                            starve_new += 1;
                        }
                    }
                    if is_yielding {
                        self.yield_streak += 1;
                    } else {
                        self.yield_streak = 0;
                    }
                    let cands: Vec<u32> = ids
                        .iter()
                        .copied()
                        .filter(|t| !self.starved.iter().any(|(v, _)| v == t))
                        .collect();
                    // everybody else spins (yield_now after yield_now): they wait for the
                    // victim, which then runs -- a spin-wait must end under this scheduler as
                    // it does under any fair one
                    let spinning = self.yield_streak > 2 * (all_ids.len() as u64 + 2);
                    if cands.is_empty() || (spinning && cands.len() < ids.len()) {
                        let vs: Vec<u32> = ids
                            .iter()
                            .copied()
                            .filter(|t| self.starved.iter().any(|(v, _)| v == t))
                            .collect();
                        self.yield_streak = 0;
                        if !self.starved.is_empty() {
                            starve_forced += 1;
                        }
                        match cur {
                            Some(c) if vs.contains(&c) => c,
                            _ if !vs.is_empty() => vs[self.rng.below(vs.len() as u64) as usize],
                            _ => ids[self.rng.below(ids.len() as u64) as usize],
                        }
                    } else {
                        match cur {
                            Some(c) if cands.contains(&c) && self.rng.chance(3, 4) => c,
                            _ => cands[self.rng.below(cands.len() as u64) as usize],
                        }
                    }
                }
                SchedSpec::Replay { decisions } => match decisions.get(step as usize) {
                    Some(d) if ids.contains(d) => *d,
                    _ => {
                        diverged = true;
                        ids[0]
                    }
                },
            }
        };
        let mut l = self.log.lock().unwrap();
        l.steps += 1;
        l.decisions.push(chosen);
        if all_ids.len() > 1 {
            l.choice_steps += 1;
            let mut h = l.schedule_hash ^ ((l.choice_steps << 20) ^ chosen as u64);
            h = h.wrapping_mul(0x100_0000_01b3).rotate_left(23) ^ 0x9E37_79B9_7F4A_7C15;
            l.schedule_hash = h;
        }
        if let Some(last) = self.last {
            if last != chosen {
                l.context_switches += 1;
                if all_ids.contains(&last) {
                    l.preemptions += 1;
                }
            }
        }
        if let Some(&m) = all_ids.iter().max() {
            if m > l.max_task {
                l.max_task = m;
            }
        }
        l.stall_windows += stalls;
        l.priority_changes += prio_changes;
        l.starve_victims += starve_new;
        l.starve_forced_steps += starve_forced;
        l.diverged |= diverged;
        self.last = Some(chosen);
        Some(TaskId::from(chosen as usize))
    }

    fn next_u64(&mut self) -> u64 {
        // The simulated code never draws randomness from the scheduler; kept
        // deterministic anyway.
        self.rng.next_u64()
    }
}

/// Set by the harness when panics are to stay silent (see `run_sim`).
pub static QUIET_PANICS: std::sync::atomic::AtomicBool = std::sync::atomic::AtomicBool::new(false);
static HOOK_RESET: std::sync::atomic::AtomicBool = std::sync::atomic::AtomicBool::new(false);

/// Outcome of one simulated execution.
pub struct ExecResult<T> {
    pub value: Result<T, String>,
    pub log: SchedLog,
    pub ctx: crate::ctx::Ctx,
}

/// What the harness puts into the simulator context before an execution.
#[derive(Clone, Debug, Default)]
pub struct Env {
    pub io: crate::io::IoPlan,
    pub stdin: Option<Vec<u8>>,
    pub abort_at: Option<u64>,
    pub global_threads: usize,
    pub model_seed: u64,
}

/// Run `f` as the main task of one simulated execution under `spec`.
/// Panics inside the execution (including shuttle's own deadlock / step-budget
/// failures) are caught and returned as `Err(text)`.
pub fn run_sim<T, F>(spec: SchedSpec, max_steps: usize, env: Env, f: F) -> ExecResult<T>
where
    T: Send + 'static,
    F: FnOnce() -> T + Send + 'static,
{
    use shuttle::{Config, FailurePersistence, MaxSteps, Runner};
    let (sched, log) = SimScheduler::new(spec);
    let mut cfg = Config::new();
    cfg.failure_persistence = FailurePersistence::None;
    cfg.max_steps = MaxSteps::FailAfter(max_steps);
    cfg.silence_warnings = true;
    cfg.stack_size = 1 << 18;
    let slot: Arc<Mutex<Option<T>>> = Arc::new(Mutex::new(None));
    let fcell: Arc<Mutex<Option<F>>> = Arc::new(Mutex::new(Some(f)));
    let slot2 = slot.clone();
    crate::ctx::reset();
    crate::real_guards_reset();
    crate::ctx::with(|c| {
        c.io = env.io.clone();
        c.stdin = env.stdin.clone();
        c.abort_at = env.abort_at;
        c.model_seed = env.model_seed;
        c.global_threads = if env.global_threads == 0 { 4 } else { env.global_threads };
    });
    crate::ctx::set_in_sim(true);
    let res = std::panic::catch_unwind(std::panic::AssertUnwindSafe(move || {
        let runner = Runner::new(sched, cfg);
        runner.run(move || {
            // shuttle wraps the panic hook once per process with one that prints two
            // lines per failing execution; panics are ordinary verdicts here, and a
            // worker that fills its stderr pipe with them blocks.  Put the quiet hook
            // back after shuttle has installed its own.
            if QUIET_PANICS.load(std::sync::atomic::Ordering::Relaxed)
                && !HOOK_RESET.swap(true, std::sync::atomic::Ordering::Relaxed)
            {
                std::panic::set_hook(Box::new(|_| {}));
            }
            let f = fcell.lock().unwrap().take().expect("one execution per runner");
            let v = f();
            *slot2.lock().unwrap() = Some(v);
        });
    }));
    crate::ctx::set_in_sim(false);
    let ctx = crate::ctx::reset();
    let log = log.lock().unwrap().clone();
    let value = match res {
        Ok(()) => match slot.lock().unwrap().take() {
            Some(v) => Ok(v),
            None => Err("execution ended without a result".to_string()),
        },
        Err(p) => Err(panic_text(&p)),
    };
    ExecResult { value, log, ctx }
}

pub fn panic_text(p: &Box<dyn std::any::Any + Send>) -> String {
    if let Some(s) = p.downcast_ref::<&str>() {
        s.to_string()
    } else if let Some(s) = p.downcast_ref::<String>() {
        s.clone()
    } else if p.downcast_ref::<crate::SimAbort>().is_some() {
        "SimAbort".to_string()
    } else if let Some(m) = p.downcast_ref::<crate::MonitorStop>() {
        format!("MonitorStop: {}", m.0)
    } else {
        "panic with non-string payload".to_string()
    }
}
