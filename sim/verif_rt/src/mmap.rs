//! Memory-mapped write monitor (hook H2).  Every `MMWriter::write_at` reports
//! `(base, capacity, pos, len)` here *before* the raw copy; the monitor is a
//! scheduling point, checks the interval while the run proceeds, and stops the
//! run instead of letting an out-of-range copy execute.

use crate::ctx;
use crate::MonitorStop;

#[derive(Clone, Debug, Default)]
pub struct MapLog {
    pub base: usize,
    pub capacity: usize,
    /// (pos, len) in call order
    pub writes: Vec<(usize, usize)>,
    pub out_of_range: Vec<(usize, usize)>,
    pub overlaps: Vec<((usize, usize), (usize, usize))>,
}

impl MapLog {
    /// Sorted list of maximal gaps [a, b) not covered by any write.
    pub fn gaps(&self, upto: usize) -> Vec<(usize, usize)> {
        let mut iv: Vec<(usize, usize)> = self
            .writes
            .iter()
            .filter(|w| w.1 > 0)
            .map(|&(p, l)| (p, p.saturating_add(l)))
            .collect();
        iv.sort_unstable();
        let mut gaps = Vec::new();
        let mut cur = 0usize;
        for (a, b) in iv {
            if a > cur {
                gaps.push((cur, a.min(upto)));
            }
            cur = cur.max(b);
            if cur >= upto {
                break;
            }
        }
        if cur < upto {
            gaps.push((cur, upto));
        }
        gaps.retain(|g| g.0 < g.1);
        gaps
    }
}

/// Called by the hook in `ktio::mmap::MMWriter::write_at` (sizes in bytes).
pub fn on_write(base: usize, capacity: usize, pos: usize, len: usize) {
    crate::sched_point("mmap_write");
    let stop = ctx::with(|c| {
        c.stats.mmap_writes += 1;
        let idx = match c.maps.iter().rposition(|m| m.base == base && m.capacity == capacity) {
            Some(i) => i,
            None => {
                c.maps.push(MapLog {
                    base,
                    capacity,
                    ..Default::default()
                });
                c.maps.len() - 1
            }
        };
        let log = &mut c.maps[idx];
        let end = pos.checked_add(len);
        let in_range = matches!(end, Some(e) if e <= capacity);
        if let Some(&(lp, _)) = log.writes.last() {
            if pos < lp {
                c.stats.mmap_out_of_order += 1;
            }
        }
        if !in_range {
            log.out_of_range.push((pos, len));
            let msg = format!(
                "mmap write out of range: pos={} len={} capacity={}",
                pos, len, capacity
            );
            if c.mmap_violation.is_none() {
                c.mmap_violation = Some(msg.clone());
            }
            return Some(msg);
        }
        if len > 0 {
            for &(p, l) in log.writes.iter() {
                if l > 0 && pos < p + l && p < pos + len {
                    log.overlaps.push(((p, l), (pos, len)));
                    if c.mmap_violation.is_none() {
                        c.mmap_violation = Some(format!(
                            "mmap writes overlap: [{},{}) and [{},{})",
                            p,
                            p + l,
                            pos,
                            pos + len
                        ));
                    }
                    break;
                }
            }
        }
        log.writes.push((pos, len));
        None
    });
    if let Some(msg) = stop {
        // Stop before the copy executes: the simulator never runs the
        // undefined behaviour it is looking for.
        std::panic::resume_unwind(Box::new(MonitorStop(msg)));
    }
}
