//! Per-execution simulator context (one OS thread => a thread_local is global
//! to the simulated execution).

use crate::io::IoPlan;
use crate::mmap::MapLog;
use std::cell::{Cell, RefCell};
use std::collections::BTreeMap;

#[derive(Default, Clone, Debug)]
pub struct Stats {
    /// number of sched_point() calls (hook events)
    pub hook_events: u64,
    pub points: BTreeMap<&'static str, u64>,
    pub aborts_fired: u64,
    // stream seam
    pub streams_opened: u64,
    pub reads: u64,
    pub short_reads: u64,
    pub eintr: u64,
    pub boundary_hits: u64,
    pub bytes_delivered: u64,
    pub modes: BTreeMap<&'static str, u64>,
    // mmap seam
    pub mmap_writes: u64,
    pub mmap_out_of_order: u64,
    // rayon stand-in
    pub pools_built: u64,
    pub jobs_spawned: u64,
    pub par_items: u64,
    pub par_batches: u64,
    pub max_pool_threads: u64,
    /// simulated tasks the rayon stand-in started in this execution / helpers it did not
    /// start because the execution already had 24 000 tasks (see shims/rayon pool.rs)
    pub tasks_started: u64,
    pub tasks_refused: u64,
    // scc stand-in
    pub map_ops: u64,
}

pub struct Ctx {
    pub stats: Stats,
    pub io: IoPlan,
    pub stdin: Option<Vec<u8>>,
    pub maps: Vec<MapLog>,
    pub mmap_violation: Option<String>,
    /// fire a SimAbort panic at the first hook event whose ordinal is >= this
    pub abort_at: Option<u64>,
    pub aborting: bool,
    /// global rayon pool size for code that is not inside an explicit pool
    pub global_threads: usize,
    /// unique id of the simulated execution this context belongs to
    pub exec_id: u64,
    /// seed and counter of the choices a *model* makes on behalf of the library it stands
    /// in for (where rayon splits a fold, for instance); a function of the run's seeds only
    pub model_seed: u64,
    pub model_ctr: u64,
}

impl Default for Ctx {
    fn default() -> Self {
        Ctx {
            stats: Stats::default(),
            io: IoPlan::default(),
            stdin: None,
            maps: Vec::new(),
            mmap_violation: None,
            abort_at: None,
            aborting: false,
            global_threads: 4,
            exec_id: NEXT_EXEC.fetch_add(1, std::sync::atomic::Ordering::Relaxed),
            model_seed: 0,
            model_ctr: 0,
        }
    }
}

static NEXT_EXEC: std::sync::atomic::AtomicU64 = std::sync::atomic::AtomicU64::new(1);

thread_local! {
    static CTX: RefCell<Ctx> = RefCell::new(Ctx::default());
    static IN_SIM: Cell<bool> = const { Cell::new(false) };
}

/// A seeded choice in `0..bound` made by a stand-in (see `Ctx::model_seed`).
pub fn model_choice(bound: u64) -> u64 {
    if bound <= 1 {
        return 0;
    }
    with(|c| {
        c.model_ctr += 1;
        crate::rng::mix(&[c.model_seed, c.model_ctr]) % bound
    })
}

pub fn with<R>(f: impl FnOnce(&mut Ctx) -> R) -> R {
    CTX.with(|c| f(&mut c.borrow_mut()))
}

/// Reset the context for a new simulated execution and return the old one.
pub fn reset() -> Ctx {
    crate::sync_mutex::clear_deferred();
    CTX.with(|c| std::mem::take(&mut *c.borrow_mut()))
}

pub fn in_sim() -> bool {
    IN_SIM.with(|c| c.get())
}

pub fn set_in_sim(v: bool) {
    IN_SIM.with(|c| c.set(v))
}
