//! `Mutex` for the H3 hook: shuttle's mutex plus a scheduling point *after*
//! the release.  shuttle switches before it acquires and before it releases
//! (i.e. while the lock is still held); a real thread can also be preempted
//! right after it let go of the lock -- "record taken, row not yet written" --
//! and that is exactly the window the ordering properties are about.

use std::fmt;
use std::ops::{Deref, DerefMut};
pub use std::sync::{LockResult, PoisonError, TryLockError, TryLockResult};

pub struct Mutex<T: ?Sized> {
    inner: shuttle::sync::Mutex<T>,
}

pub struct MutexGuard<'a, T: ?Sized> {
    inner: Option<shuttle::sync::MutexGuard<'a, T>>,
}

impl<T> Mutex<T> {
    pub fn new(value: T) -> Self {
        Mutex {
            inner: shuttle::sync::Mutex::new(value),
        }
    }
    pub fn into_inner(self) -> LockResult<T> {
        self.inner.into_inner()
    }
}

impl<T: ?Sized> Mutex<T> {
    pub fn lock(&self) -> LockResult<MutexGuard<'_, T>> {
        match self.inner.lock() {
            Ok(g) => Ok(MutexGuard { inner: Some(g) }),
            Err(p) => Err(PoisonError::new(MutexGuard {
                inner: Some(p.into_inner()),
            })),
        }
    }
    pub fn try_lock(&self) -> TryLockResult<MutexGuard<'_, T>> {
        match self.inner.try_lock() {
            Ok(g) => Ok(MutexGuard { inner: Some(g) }),
            Err(TryLockError::WouldBlock) => Err(TryLockError::WouldBlock),
            Err(TryLockError::Poisoned(p)) => Err(TryLockError::Poisoned(PoisonError::new(MutexGuard {
                inner: Some(p.into_inner()),
            }))),
        }
    }
    pub fn get_mut(&mut self) -> LockResult<&mut T> {
        self.inner.get_mut()
    }
    pub fn clear_poison(&self) {
        self.inner.clear_poison()
    }
}

impl<T: ?Sized> Drop for MutexGuard<'_, T> {
    fn drop(&mut self) {
        self.inner = None; // release (shuttle switches before releasing)
        crate::sched_point("mutex_released");
    }
}

impl<T: ?Sized> Deref for MutexGuard<'_, T> {
    type Target = T;
    fn deref(&self) -> &T {
        self.inner.as_ref().unwrap()
    }
}

impl<T: ?Sized> DerefMut for MutexGuard<'_, T> {
    fn deref_mut(&mut self) -> &mut T {
        self.inner.as_mut().unwrap()
    }
}

impl<T: Default> Default for Mutex<T> {
    fn default() -> Self {
        Mutex::new(T::default())
    }
}

impl<T> From<T> for Mutex<T> {
    fn from(t: T) -> Self {
        Mutex::new(t)
    }
}

impl<T: ?Sized + fmt::Debug> fmt::Debug for Mutex<T> {
    fn fmt(&self, f: &mut fmt::Formatter<'_>) -> fmt::Result {
        self.inner.fmt(f)
    }
}

impl<T: ?Sized + fmt::Debug> fmt::Debug for MutexGuard<'_, T> {
    fn fmt(&self, f: &mut fmt::Formatter<'_>) -> fmt::Result {
        self.inner.as_ref().unwrap().fmt(f)
    }
}

impl<T: ?Sized + fmt::Display> fmt::Display for MutexGuard<'_, T> {
    fn fmt(&self, f: &mut fmt::Formatter<'_>) -> fmt::Result {
        self.inner.as_ref().unwrap().fmt(f)
    }
}

/// `Condvar` working with the wrapped guard.
#[derive(Debug, Default)]
pub struct Condvar {
    inner: shuttle::sync::Condvar,
}

impl Condvar {
    pub fn new() -> Self {
        Condvar {
            inner: shuttle::sync::Condvar::new(),
        }
    }
    pub fn wait<'a, T>(&self, mut guard: MutexGuard<'a, T>) -> LockResult<MutexGuard<'a, T>> {
        let g = guard.inner.take().unwrap();
        std::mem::forget(guard);
        match self.inner.wait(g) {
            Ok(g) => Ok(MutexGuard { inner: Some(g) }),
            Err(p) => Err(PoisonError::new(MutexGuard {
                inner: Some(p.into_inner()),
            })),
        }
    }
    pub fn wait_while<'a, T, F>(&self, mut guard: MutexGuard<'a, T>, mut condition: F) -> LockResult<MutexGuard<'a, T>>
    where
        F: FnMut(&mut T) -> bool,
    {
        while condition(&mut *guard) {
            guard = self.wait(guard)?;
        }
        Ok(guard)
    }
    pub fn notify_one(&self) {
        self.inner.notify_one()
    }
    pub fn notify_all(&self) {
        self.inner.notify_all()
    }
}
