//! `Mutex` / `Condvar` for the H3 hook: shuttle's mutex plus
//!
//!  * a scheduling point *after* the release.  shuttle switches before it
//!    acquires and before it releases (i.e. while the lock is still held); a real
//!    thread can also be preempted right after it let go of the lock -- "record
//!    taken, row not yet written" -- which is exactly the window the ordering
//!    properties are about;
//!  * std-like behaviour when a thread panics while holding the lock: the lock is
//!    released, marked poisoned, and the waiters wake up with a `PoisonError`.
//!    (shuttle's own guard, dropped during unwinding, closes the lock and leaves
//!    its waiters blocked for good, because it assumes the whole test is failing;
//!    here a panic is often an ordinary outcome -- a rejected record, an injected
//!    abort -- so the release of such a guard is deferred to the first moment the
//!    thread is no longer unwinding.)

use std::cell::RefCell;
use std::fmt;
use std::marker::PhantomData;
use std::ops::{Deref, DerefMut};
use std::sync::atomic::{AtomicBool, Ordering};
use std::sync::Arc;
pub use std::sync::{LockResult, PoisonError, TryLockError, TryLockResult};

struct Shared<T> {
    m: shuttle::sync::Mutex<T>,
    poisoned: AtomicBool,
}

pub struct Mutex<T> {
    sh: Arc<Shared<T>>,
}

pub struct MutexGuard<'a, T> {
    g: Option<shuttle::sync::MutexGuard<'a, T>>,
    sh: Arc<Shared<T>>,
    _p: PhantomData<&'a Mutex<T>>,
}

thread_local! {
    static DEFERRED: RefCell<Vec<Box<dyn FnOnce()>>> = const { RefCell::new(Vec::new()) };
}

/// Release the locks whose guards were dropped while their thread was
/// unwinding.  Called from every scheduling/fault point, from `lock`, and by the
/// stand-ins right after they caught a panic.
pub fn release_deferred() {
    if std::thread::panicking() {
        return;
    }
    let pending = DEFERRED.with(|d| {
        let mut d = d.borrow_mut();
        if d.is_empty() {
            Vec::new()
        } else {
            std::mem::take(&mut *d)
        }
    });
    for f in pending {
        f();
    }
}

pub(crate) fn clear_deferred() {
    // a new execution starts: whatever an abandoned execution left behind
    // refers to dead coroutines; leak it rather than touch it
    DEFERRED.with(|d| {
        for f in std::mem::take(&mut *d.borrow_mut()) {
            std::mem::forget(f);
        }
    });
}

impl<T> Mutex<T> {
    pub fn new(value: T) -> Self {
        Mutex {
            sh: Arc::new(Shared {
                m: shuttle::sync::Mutex::new(value),
                poisoned: AtomicBool::new(false),
            }),
        }
    }

    fn wrap<'a>(&'a self, g: shuttle::sync::MutexGuard<'a, T>) -> MutexGuard<'a, T> {
        MutexGuard {
            g: Some(g),
            sh: self.sh.clone(),
            _p: PhantomData,
        }
    }

    pub fn lock(&self) -> LockResult<MutexGuard<'_, T>> {
        release_deferred();
        let g = match self.sh.m.lock() {
            Ok(g) => g,
            Err(p) => p.into_inner(),
        };
        let g = self.wrap(g);
        // a thread can lose the processor right after it got the lock: without a
        // scheduling point *inside* the critical section nobody would ever see the lock
        // held (a `try_lock` elsewhere could not fail, a reader of data the holder is
        // about to change could not run in between)
        crate::sched_point("mutex_acquired");
        if self.sh.poisoned.load(Ordering::SeqCst) {
            Err(PoisonError::new(g))
        } else {
            Ok(g)
        }
    }

    pub fn try_lock(&self) -> TryLockResult<MutexGuard<'_, T>> {
        release_deferred();
        let g = match self.sh.m.try_lock() {
            Ok(g) => g,
            Err(TryLockError::WouldBlock) => return Err(TryLockError::WouldBlock),
            Err(TryLockError::Poisoned(p)) => p.into_inner(),
        };
        let g = self.wrap(g);
        if self.sh.poisoned.load(Ordering::SeqCst) {
            Err(TryLockError::Poisoned(PoisonError::new(g)))
        } else {
            Ok(g)
        }
    }

    pub fn is_poisoned(&self) -> bool {
        self.sh.poisoned.load(Ordering::SeqCst)
    }

    pub fn clear_poison(&self) {
        self.sh.poisoned.store(false, Ordering::SeqCst)
    }

    pub fn get_mut(&mut self) -> LockResult<&mut T> {
        let poisoned = self.is_poisoned();
        let sh = Arc::get_mut(&mut self.sh).expect("Mutex::get_mut while a guard is alive");
        match sh.m.get_mut() {
            Ok(v) => {
                if poisoned {
                    Err(PoisonError::new(v))
                } else {
                    Ok(v)
                }
            }
            Err(p) => Err(PoisonError::new(p.into_inner())),
        }
    }

    pub fn into_inner(self) -> LockResult<T> {
        release_deferred();
        let poisoned = self.is_poisoned();
        let sh = match Arc::try_unwrap(self.sh) {
            Ok(s) => s,
            Err(_) => panic!("Mutex::into_inner while a guard is alive"),
        };
        match sh.m.into_inner() {
            Ok(v) => {
                if poisoned {
                    Err(PoisonError::new(v))
                } else {
                    Ok(v)
                }
            }
            Err(p) => Err(PoisonError::new(p.into_inner())),
        }
    }
}

impl<T> Drop for MutexGuard<'_, T> {
    fn drop(&mut self) {
        let g = match self.g.take() {
            Some(g) => g,
            None => return, // handed to a Condvar
        };
        if std::thread::panicking() {
            self.sh.poisoned.store(true, Ordering::SeqCst);
            let keep = self.sh.clone();
            // the closure owns an Arc to everything the guard refers to
            let f: Box<dyn FnOnce() + '_> = Box::new(move || {
                drop(g);
                drop(keep);
            });
            // SAFETY: the closure owns an Arc to everything the guard refers to.
            let f: Box<dyn FnOnce() + 'static> = unsafe { std::mem::transmute(f) };
            DEFERRED.with(|d| d.borrow_mut().push(f));
        } else {
            drop(g); // shuttle switches before it releases
            crate::sched_point("mutex_released");
        }
    }
}

impl<T> Deref for MutexGuard<'_, T> {
    type Target = T;
    fn deref(&self) -> &T {
        self.g.as_ref().unwrap()
    }
}

impl<T> DerefMut for MutexGuard<'_, T> {
    fn deref_mut(&mut self) -> &mut T {
        self.g.as_mut().unwrap()
    }
}

impl<T: Default> Default for Mutex<T> {
    fn default() -> Self {
        Mutex::new(T::default())
    }
}

impl<T> From<T> for Mutex<T> {
    fn from(t: T) -> Self {
        Mutex::new(t)
    }
}

impl<T: fmt::Debug> fmt::Debug for Mutex<T> {
    fn fmt(&self, f: &mut fmt::Formatter<'_>) -> fmt::Result {
        self.sh.m.fmt(f)
    }
}

impl<T: fmt::Debug> fmt::Debug for MutexGuard<'_, T> {
    fn fmt(&self, f: &mut fmt::Formatter<'_>) -> fmt::Result {
        self.g.as_ref().unwrap().fmt(f)
    }
}

impl<T: fmt::Display> fmt::Display for MutexGuard<'_, T> {
    fn fmt(&self, f: &mut fmt::Formatter<'_>) -> fmt::Result {
        self.g.as_ref().unwrap().fmt(f)
    }
}

/// `Condvar` working with the wrapped guard.
#[derive(Debug, Default)]
pub struct Condvar {
    inner: shuttle::sync::Condvar,
}

impl Condvar {
    pub fn new() -> Self {
        Condvar {
            inner: shuttle::sync::Condvar::new(),
        }
    }
    pub fn wait<'a, T>(&self, mut guard: MutexGuard<'a, T>) -> LockResult<MutexGuard<'a, T>> {
        let g = guard.g.take().unwrap();
        let sh = guard.sh.clone();
        drop(guard);
        let g = match self.inner.wait(g) {
            Ok(g) => g,
            Err(p) => p.into_inner(),
        };
        let poisoned = sh.poisoned.load(Ordering::SeqCst);
        let ng = MutexGuard {
            g: Some(g),
            sh,
            _p: PhantomData,
        };
        if poisoned {
            Err(PoisonError::new(ng))
        } else {
            Ok(ng)
        }
    }
    pub fn wait_while<'a, T, F>(&self, mut guard: MutexGuard<'a, T>, mut condition: F) -> LockResult<MutexGuard<'a, T>>
    where
        F: FnMut(&mut T) -> bool,
    {
        while condition(&mut *guard) {
            guard = self.wait(guard)?;
        }
        Ok(guard)
    }
    pub fn notify_one(&self) {
        self.inner.notify_one()
    }
    pub fn notify_all(&self) {
        self.inner.notify_all()
    }
}
