//! Stream seam (hook H1): simulated delivery of the bytes of an input stream.
//!
//! The bytes are the real content of the real file (or the stdin bytes the
//! harness supplied); what is simulated is how many of them each `read` call
//! returns and whether a call is interrupted (EINTR).  Bytes are never dropped,
//! duplicated or reordered.  The seam does not yield to the scheduler: in the
//! pipelines every read happens while the reader mutex is held.

use crate::ctx;
use crate::rng::{mix, Rng};
use std::io::{self, Read};

#[derive(Clone, Copy, Debug, PartialEq, Eq)]
pub enum Mode {
    /// give the caller everything it asks for
    Full,
    /// one byte per call
    One,
    /// 1..=7 bytes per call
    Small,
    /// 1,2,4,...,4096 bytes, chosen per call
    Pow2,
    /// reads end at, one before, or one after an interesting offset: a line
    /// end, a record start, a multiple of 8192 (BufReader capacity), a gzip
    /// member start
    Boundary,
}

impl Mode {
    pub fn name(self) -> &'static str {
        match self {
            Mode::Full => "full",
            Mode::One => "one",
            Mode::Small => "small",
            Mode::Pow2 => "pow2",
            Mode::Boundary => "boundary",
        }
    }
    pub fn from_name(s: &str) -> Option<Mode> {
        Some(match s {
            "full" => Mode::Full,
            "one" => Mode::One,
            "small" => Mode::Small,
            "pow2" => Mode::Pow2,
            "boundary" => Mode::Boundary,
            _ => return None,
        })
    }
}

#[derive(Clone, Debug)]
pub struct IoPlan {
    /// false: the seam is transparent (fault-free stratum)
    pub enabled: bool,
    pub seed: u64,
    /// None: each stream draws its own mode from the seed
    pub mode: Option<Mode>,
    /// probability (per mille) that a read call returns ErrorKind::Interrupted
    pub eintr_permille: u32,
}

impl Default for IoPlan {
    fn default() -> Self {
        IoPlan {
            enabled: false,
            seed: 0,
            mode: None,
            eintr_permille: 0,
        }
    }
}

pub struct SimRead<R: Read> {
    inner: R,
    data: Option<Vec<u8>>,
    pos: usize,
    rng: Rng,
    mode: Mode,
    eintr_permille: u32,
    calls: u64,
    boundaries: Vec<usize>,
    enabled: bool,
}

impl<R: Read> SimRead<R> {
    pub fn new(inner: R, _label: &str) -> Self {
        let (enabled, seed, mode, eintr, ordinal) = ctx::with(|c| {
            c.stats.streams_opened += 1;
            (
                c.io.enabled,
                c.io.seed,
                c.io.mode,
                c.io.eintr_permille,
                c.stats.streams_opened,
            )
        });
        let mut rng = Rng::new(mix(&[seed, ordinal]));
        let mode = if !enabled {
            Mode::Full
        } else {
            mode.unwrap_or_else(|| {
                *rng.pick(&[Mode::Full, Mode::One, Mode::Small, Mode::Pow2, Mode::Boundary, Mode::Boundary])
            })
        };
        if enabled {
            ctx::with(|c| *c.stats.modes.entry(mode.name()).or_insert(0) += 1);
        }
        SimRead {
            inner,
            data: None,
            pos: 0,
            rng,
            mode,
            eintr_permille: if enabled { eintr } else { 0 },
            calls: 0,
            boundaries: Vec::new(),
            enabled,
        }
    }

    fn slurp(&mut self) -> io::Result<()> {
        if self.data.is_none() {
            let mut v = Vec::new();
            self.inner.read_to_end(&mut v)?;
            let mut b = Vec::new();
            for (i, &c) in v.iter().enumerate() {
                if c == b'\n' || c == b'\r' || c == b'>' || c == b'@' {
                    b.push(i);
                    b.push(i + 1);
                }
                if i > 0 && i % 8192 == 0 {
                    b.push(i);
                }
                if i > 0 && c == 0x1f && v.get(i + 1) == Some(&0x8b) && v.get(i + 2) == Some(&0x08) {
                    b.push(i);
                }
            }
            b.sort_unstable();
            b.dedup();
            self.boundaries = b;
            self.data = Some(v);
        }
        Ok(())
    }
}

impl<R: Read> Read for SimRead<R> {
    fn read(&mut self, buf: &mut [u8]) -> io::Result<usize> {
        if !self.enabled {
            crate::fault_point("stream_read");
            return self.inner.read(buf);
        }
        self.slurp()?;
        self.calls += 1;
        crate::fault_point("stream_read");
        let remaining = self.data.as_ref().unwrap().len() - self.pos;
        if buf.is_empty() || remaining == 0 {
            return Ok(0);
        }
        // The first call of a stream is never interrupted: format sniffing
        // through BufRead::fill_buf legitimately surfaces that error, and no
        // property speaks about it.
        if self.calls > 1 && self.eintr_permille > 0 && self.rng.below(1000) < self.eintr_permille as u64 {
            ctx::with(|c| c.stats.eintr += 1);
            return Err(io::Error::new(io::ErrorKind::Interrupted, "simulated EINTR"));
        }
        let cap = buf.len().min(remaining);
        let mut boundary_hit = false;
        let want = match self.mode {
            Mode::Full => cap,
            Mode::One => 1,
            Mode::Small => self.rng.usize(1, 7),
            Mode::Pow2 => 1usize << self.rng.below(13),
            Mode::Boundary => {
                // next boundary strictly after pos, sometimes a later one
                let idx = self.boundaries.partition_point(|&b| b <= self.pos);
                if idx >= self.boundaries.len() {
                    cap
                } else {
                    let skip = if self.rng.chance(1, 4) { self.rng.usize(0, 7) } else { 0 };
                    let b = self.boundaries[(idx + skip).min(self.boundaries.len() - 1)];
                    let target = match self.rng.below(3) {
                        0 if b > self.pos + 1 => b - 1,
                        1 => b,
                        _ => b + 1,
                    };
                    boundary_hit = target - self.pos <= cap;
                    target - self.pos
                }
            }
        };
        let n = want.max(1).min(cap);
        let data = self.data.as_ref().unwrap();
        buf[..n].copy_from_slice(&data[self.pos..self.pos + n]);
        self.pos += n;
        ctx::with(|c| {
            c.stats.reads += 1;
            c.stats.bytes_delivered += n as u64;
            if n < cap {
                c.stats.short_reads += 1;
            }
            if boundary_hit {
                c.stats.boundary_hits += 1;
            }
        });
        Ok(n)
    }
}

/// Bytes for a simulated standard input, if the harness supplied some.
pub fn sim_stdin() -> Option<Box<dyn Read + Sync + Send>> {
    let bytes = ctx::with(|c| c.stdin.take())?;
    Some(Box::new(SimRead::new(io::Cursor::new(bytes), "-")))
}
