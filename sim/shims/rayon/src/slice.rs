//! Parallel slice helpers of the stand-in.

use crate::iter::VecIter;

pub trait ParallelSlice<T: Sync> {
    fn as_parallel_slice(&self) -> &[T];

    fn par_chunks(&self, chunk_size: usize) -> VecIter<&[T]> {
        assert!(chunk_size != 0, "chunk_size must not be zero");
        VecIter {
            items: self.as_parallel_slice().chunks(chunk_size).collect(),
        }
    }

    fn par_chunks_exact(&self, chunk_size: usize) -> VecIter<&[T]> {
        assert!(chunk_size != 0, "chunk_size must not be zero");
        VecIter {
            items: self.as_parallel_slice().chunks_exact(chunk_size).collect(),
        }
    }

    fn par_windows(&self, window_size: usize) -> VecIter<&[T]> {
        VecIter {
            items: self.as_parallel_slice().windows(window_size).collect(),
        }
    }
}

impl<T: Sync> ParallelSlice<T> for [T] {
    fn as_parallel_slice(&self) -> &[T] {
        self
    }
}

pub trait ParallelSliceMut<T: Send> {
    fn as_parallel_slice_mut(&mut self) -> &mut [T];

    fn par_chunks_mut(&mut self, chunk_size: usize) -> VecIter<&mut [T]> {
        assert!(chunk_size != 0, "chunk_size must not be zero");
        VecIter {
            items: self.as_parallel_slice_mut().chunks_mut(chunk_size).collect(),
        }
    }

    fn par_sort(&mut self)
    where
        T: Ord,
    {
        self.as_parallel_slice_mut().sort()
    }

    fn par_sort_by<F>(&mut self, compare: F)
    where
        F: Fn(&T, &T) -> std::cmp::Ordering + Sync,
    {
        self.as_parallel_slice_mut().sort_by(compare)
    }

    fn par_sort_by_key<K, F>(&mut self, f: F)
    where
        K: Ord,
        F: Fn(&T) -> K + Sync,
    {
        self.as_parallel_slice_mut().sort_by_key(f)
    }

    fn par_sort_unstable(&mut self)
    where
        T: Ord,
    {
        self.as_parallel_slice_mut().sort_unstable()
    }

    fn par_sort_unstable_by<F>(&mut self, compare: F)
    where
        F: Fn(&T, &T) -> std::cmp::Ordering + Sync,
    {
        self.as_parallel_slice_mut().sort_unstable_by(compare)
    }

    fn par_sort_unstable_by_key<K, F>(&mut self, f: F)
    where
        K: Ord,
        F: Fn(&T) -> K + Sync,
    {
        self.as_parallel_slice_mut().sort_unstable_by_key(f)
    }
}

impl<T: Send> ParallelSliceMut<T> for [T] {
    fn as_parallel_slice_mut(&mut self) -> &mut [T] {
        self
    }
}
