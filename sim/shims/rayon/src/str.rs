//! Parallel string helpers of the stand-in.

use crate::iter::VecIter;

pub trait ParallelString {
    fn as_parallel_string(&self) -> &str;

    fn par_chars(&self) -> VecIter<char> {
        VecIter {
            items: self.as_parallel_string().chars().collect(),
        }
    }

    fn par_bytes(&self) -> VecIter<u8> {
        VecIter {
            items: self.as_parallel_string().bytes().collect(),
        }
    }

    fn par_lines(&self) -> VecIter<&str> {
        VecIter {
            items: self.as_parallel_string().lines().collect(),
        }
    }

    fn par_split_whitespace(&self) -> VecIter<&str> {
        VecIter {
            items: self.as_parallel_string().split_whitespace().collect(),
        }
    }
}

impl ParallelString for str {
    fn as_parallel_string(&self) -> &str {
        self
    }
}
