//! Simulation stand-in for `rayon`: the same public names, implemented as a
//! contract-level model on shuttle tasks (see pool.rs / iter.rs).  It exists so
//! that the UNMODIFIED kmertools sources run under a scheduler the simulator
//! owns.  Not modelled: work stealing internals, thread identity, split shapes.

pub mod iter;
mod pool;
pub mod slice;
pub mod str;

pub mod prelude {
    pub use crate::iter::{
        FromParallelIterator, IndexedParallelIterator, IntoParallelIterator,
        IntoParallelRefIterator, IntoParallelRefMutIterator, ParallelBridge, ParallelExtend,
        ParallelIterator,
    };
    pub use crate::slice::{ParallelSlice, ParallelSliceMut};
    pub use crate::str::ParallelString;
}

pub use pool::{
    current_num_threads, current_thread_index, in_place_scope, join, max_num_threads, scope,
    scope_fifo, spawn, Scope, ScopeFifo, ThreadPool, ThreadPoolBuildError, ThreadPoolBuilder,
};
