//! Thread pools, scopes and the parallel-item engine, modelled on shuttle tasks.
//!
//! Contract modelled (what rayon documents), not rayon's internals:
//!  * at most `num_threads` tasks of one pool run pool code at any time (a task
//!    blocked at the end of a scope / parallel iterator does not count);
//!  * jobs of a scope start in an order the *scheduler* chooses and run
//!    concurrently up to that limit; a scope returns only after all its jobs
//!    (including jobs spawned by jobs) have finished;
//!  * a panic in a job or in the scope body is caught, everything else is allowed
//!    to finish, and the first panic is re-raised in the caller.

use std::any::Any;
use std::cell::{RefCell, UnsafeCell};
use std::collections::VecDeque;
use std::marker::PhantomData;
use std::panic::{catch_unwind, resume_unwind, AssertUnwindSafe};
use std::sync::{Arc, Mutex as StdMutex};

use shuttle::sync::atomic::{AtomicUsize, Ordering};
use shuttle::thread::JoinHandle;

pub(crate) struct PoolState {
    pub threads: usize,
    /// tasks currently running code of this pool (not blocked at a join)
    active: StdMutex<usize>,
}

impl PoolState {
    fn new(threads: usize) -> Arc<Self> {
        verif_rt::ctx::with(|c| {
            c.stats.pools_built += 1;
            c.stats.max_pool_threads = c.stats.max_pool_threads.max(threads as u64);
        });
        Arc::new(PoolState {
            threads: threads.max(1),
            active: StdMutex::new(0),
        })
    }
    fn try_take_slot(&self) -> bool {
        // Every simulated task keeps its coroutine stack (one memory mapping plus a guard
        // page) until the execution ends, and a process may hold about 65 000 mappings.  A
        // run that has already started 24 000 tasks gets no further helpers: the caller does
        // the work itself (what rayon does when no worker is free) -- a legal schedule, and
        // the alternative is the simulator running out of mappings.
        if verif_rt::ctx::with(|c| {
            if c.stats.tasks_started >= 24_000 {
                c.stats.tasks_refused += 1;
                true
            } else {
                false
            }
        }) {
            return false;
        }
        let mut a = self.active.lock().unwrap();
        if *a < self.threads {
            verif_rt::ctx::with(|c| c.stats.tasks_started += 1);
            *a += 1;
            true
        } else {
            false
        }
    }
    fn enter(&self) {
        *self.active.lock().unwrap() += 1;
    }
    fn leave(&self) {
        let mut a = self.active.lock().unwrap();
        *a = a.saturating_sub(1);
    }
}

shuttle::thread_local! {
    static CURRENT: RefCell<Option<Arc<PoolState>>> = RefCell::new(None);
}

thread_local! {
    // (execution id, global pool) -- std thread_local: shared by all simulated
    // tasks of the execution, rebuilt when a new execution starts.
    static GLOBAL: RefCell<Option<(u64, Arc<PoolState>)>> = const { RefCell::new(None) };
}

fn global_pool() -> Arc<PoolState> {
    let (id, n) = verif_rt::ctx::with(|c| (c.exec_id, c.global_threads));
    GLOBAL.with(|g| {
        let mut g = g.borrow_mut();
        match &*g {
            Some((gid, p)) if *gid == id => p.clone(),
            _ => {
                let p = PoolState::new(n);
                *g = Some((id, p.clone()));
                p
            }
        }
    })
}

fn current_pool_opt() -> Option<Arc<PoolState>> {
    CURRENT.with(|c| c.borrow().clone())
}

pub(crate) fn current_pool() -> Arc<PoolState> {
    current_pool_opt().unwrap_or_else(global_pool)
}

fn set_current(p: Option<Arc<PoolState>>) -> Option<Arc<PoolState>> {
    CURRENT.with(|c| std::mem::replace(&mut *c.borrow_mut(), p))
}

/// Run `f` as "a worker of `pool`": the calling task occupies one slot of the
/// pool for the duration (and gives up its slot in the pool it came from).
fn in_pool<R>(pool: &Arc<PoolState>, f: impl FnOnce() -> R) -> R {
    let prev = current_pool_opt();
    if let Some(p) = &prev {
        if Arc::ptr_eq(p, pool) {
            return f();
        }
    }
    if let Some(p) = &prev {
        p.leave();
    }
    pool.enter();
    set_current(Some(pool.clone()));
    let r = catch_unwind(AssertUnwindSafe(f));
    if r.is_err() {
        verif_rt::release_deferred();
    }
    set_current(prev.clone());
    pool.leave();
    if let Some(p) = &prev {
        p.enter();
    }
    match r {
        Ok(v) => v,
        Err(p) => resume_unwind(p),
    }
}

/// Make sure the calling task is accounted for in *some* pool (the main task of
/// an execution starts outside every pool and joins the global one on demand).
fn ensure_in_pool<R>(f: impl FnOnce(&Arc<PoolState>) -> R) -> R {
    match current_pool_opt() {
        Some(p) => f(&p),
        None => {
            let g = global_pool();
            in_pool(&g, || f(&g))
        }
    }
}

// ---------------------------------------------------------------- builder

#[derive(Debug)]
pub struct ThreadPoolBuildError {
    _priv: (),
}

impl std::fmt::Display for ThreadPoolBuildError {
    fn fmt(&self, f: &mut std::fmt::Formatter<'_>) -> std::fmt::Result {
        write!(f, "thread pool build error (simulated)")
    }
}

impl std::error::Error for ThreadPoolBuildError {}

#[derive(Default)]
pub struct ThreadPoolBuilder {
    num_threads: usize,
}

impl ThreadPoolBuilder {
    pub fn new() -> Self {
        ThreadPoolBuilder { num_threads: 0 }
    }
    pub fn num_threads(mut self, n: usize) -> Self {
        self.num_threads = n;
        self
    }
    pub fn thread_name<F>(self, _f: F) -> Self
    where
        F: FnMut(usize) -> String + 'static,
    {
        self
    }
    pub fn stack_size(self, _s: usize) -> Self {
        self
    }
    pub fn build(self) -> Result<ThreadPool, ThreadPoolBuildError> {
        let n = if self.num_threads == 0 {
            verif_rt::ctx::with(|c| c.global_threads)
        } else {
            self.num_threads
        };
        Ok(ThreadPool {
            state: PoolState::new(n),
        })
    }
    pub fn build_global(self) -> Result<(), ThreadPoolBuildError> {
        let n = if self.num_threads == 0 {
            verif_rt::ctx::with(|c| c.global_threads)
        } else {
            self.num_threads
        };
        let id = verif_rt::ctx::with(|c| c.exec_id);
        GLOBAL.with(|g| {
            let mut g = g.borrow_mut();
            match &*g {
                Some((gid, _)) if *gid == id => Err(ThreadPoolBuildError { _priv: () }),
                _ => {
                    *g = Some((id, PoolState::new(n)));
                    Ok(())
                }
            }
        })
    }
}

pub struct ThreadPool {
    state: Arc<PoolState>,
}

impl std::fmt::Debug for ThreadPool {
    fn fmt(&self, f: &mut std::fmt::Formatter<'_>) -> std::fmt::Result {
        write!(f, "ThreadPool(sim, threads={})", self.state.threads)
    }
}

impl ThreadPool {
    pub fn install<OP, R>(&self, op: OP) -> R
    where
        OP: FnOnce() -> R + Send,
        R: Send,
    {
        in_pool(&self.state, op)
    }
    pub fn current_num_threads(&self) -> usize {
        self.state.threads
    }
    pub fn current_thread_index(&self) -> Option<usize> {
        None
    }
    pub fn scope<'scope, OP, R>(&self, op: OP) -> R
    where
        OP: FnOnce(&Scope<'scope>) -> R + Send,
        R: Send,
    {
        self.install(|| scope(op))
    }
    pub fn scope_fifo<'scope, OP, R>(&self, op: OP) -> R
    where
        OP: FnOnce(&Scope<'scope>) -> R + Send,
        R: Send,
    {
        self.install(|| scope(op))
    }
    pub fn join<A, B, RA, RB>(&self, a: A, b: B) -> (RA, RB)
    where
        A: FnOnce() -> RA + Send,
        B: FnOnce() -> RB + Send,
        RA: Send,
        RB: Send,
    {
        self.install(|| join(a, b))
    }
    pub fn spawn<OP>(&self, op: OP)
    where
        OP: FnOnce() + Send + 'static,
    {
        let pool = self.state.clone();
        detached(pool, op);
    }
}

pub fn current_num_threads() -> usize {
    current_pool().threads
}

pub fn current_thread_index() -> Option<usize> {
    None
}

pub fn max_num_threads() -> usize {
    1 << 16
}

fn detached<OP: FnOnce() + Send + 'static>(pool: Arc<PoolState>, op: OP) {
    verif_rt::ctx::with(|c| c.stats.jobs_spawned += 1);
    shuttle::thread::spawn(move || {
        in_pool(&pool, op);
    });
}

pub fn spawn<OP>(op: OP)
where
    OP: FnOnce() + Send + 'static,
{
    detached(current_pool(), op);
}

// ------------------------------------------------------------------ scope

type Job = Box<dyn FnOnce() + Send + 'static>;

struct ScopeState {
    pool: Arc<PoolState>,
    queue: StdMutex<VecDeque<Job>>,
    handles: StdMutex<Vec<JoinHandle<()>>>,
    panic: StdMutex<Option<Box<dyn Any + Send + 'static>>>,
}

impl ScopeState {
    fn record_panic(&self, p: Box<dyn Any + Send + 'static>) {
        let mut g = self.panic.lock().unwrap();
        if g.is_none() {
            *g = Some(p);
        }
    }
    fn run_job(&self, job: Job) {
        if let Err(p) = catch_unwind(AssertUnwindSafe(job)) {
            verif_rt::release_deferred();
            self.record_panic(p);
        }
    }
}

pub struct Scope<'scope> {
    state: Arc<ScopeState>,
    _marker: PhantomData<Box<dyn FnOnce(&Scope<'scope>) + Send + Sync + 'scope>>,
}

pub type ScopeFifo<'scope> = Scope<'scope>;

struct SendPtr<T>(*const T);
unsafe impl<T> Send for SendPtr<T> {}

impl<'scope> Scope<'scope> {
    pub fn spawn<BODY>(&self, body: BODY)
    where
        BODY: FnOnce(&Scope<'scope>) + Send + 'scope,
    {
        verif_rt::ctx::with(|c| c.stats.jobs_spawned += 1);
        let me = SendPtr(self as *const Scope<'scope>);
        let job: Box<dyn FnOnce() + Send + 'scope> = Box::new(move || {
            let me = me;
            // SAFETY: the scope object outlives every job: `scope()` does not
            // return before all jobs have finished.
            let s: &Scope<'scope> = unsafe { &*me.0 };
            body(s)
        });
        // SAFETY: lifetime erasure as in every scoped-thread implementation;
        // all jobs are joined before `scope()` returns, also on panic.
        let job: Job = unsafe { std::mem::transmute(job) };
        let st = self.state.clone();
        if st.pool.try_take_slot() {
            let st2 = st.clone();
            let h = shuttle::thread::spawn(move || {
                set_current(Some(st2.pool.clone()));
                st2.run_job(job);
                loop {
                    let next = st2.queue.lock().unwrap().pop_front();
                    match next {
                        Some(j) => st2.run_job(j),
                        None => break,
                    }
                }
                st2.pool.leave();
            });
            st.handles.lock().unwrap().push(h);
        } else {
            st.queue.lock().unwrap().push_back(job);
        }
    }

    pub fn spawn_fifo<BODY>(&self, body: BODY)
    where
        BODY: FnOnce(&Scope<'scope>) + Send + 'scope,
    {
        self.spawn(body)
    }
}

pub fn scope<'scope, OP, R>(op: OP) -> R
where
    OP: FnOnce(&Scope<'scope>) -> R + Send,
    R: Send,
{
    ensure_in_pool(|pool| {
        let sc = Scope {
            state: Arc::new(ScopeState {
                pool: pool.clone(),
                queue: StdMutex::new(VecDeque::new()),
                handles: StdMutex::new(Vec::new()),
                panic: StdMutex::new(None),
            }),
            _marker: PhantomData,
        };
        let r = catch_unwind(AssertUnwindSafe(|| op(&sc)));
        if r.is_err() {
            verif_rt::release_deferred();
        }
        // The owner helps: it runs what is still queued (newest first, as a
        // rayon worker pops its own deque) ...
        loop {
            let next = sc.state.queue.lock().unwrap().pop_back();
            match next {
                Some(j) => sc.state.run_job(j),
                None => break,
            }
        }
        // ... then waits, without occupying a slot, for the running workers.
        pool.leave();
        loop {
            let h = sc.state.handles.lock().unwrap().pop();
            match h {
                Some(h) => {
                    if let Err(p) = h.join() {
                        sc.state.record_panic(p);
                    }
                }
                None => break,
            }
        }
        pool.enter();
        debug_assert!(sc.state.queue.lock().unwrap().is_empty());
        let job_panic = sc.state.panic.lock().unwrap().take();
        match r {
            Err(p) => resume_unwind(p),
            Ok(v) => {
                if let Some(p) = job_panic {
                    resume_unwind(p);
                }
                v
            }
        }
    })
}

pub fn scope_fifo<'scope, OP, R>(op: OP) -> R
where
    OP: FnOnce(&Scope<'scope>) -> R + Send,
    R: Send,
{
    scope(op)
}

pub fn in_place_scope<'scope, OP, R>(op: OP) -> R
where
    OP: FnOnce(&Scope<'scope>) -> R + Send,
    R: Send,
{
    scope(op)
}

pub fn join<A, B, RA, RB>(a: A, b: B) -> (RA, RB)
where
    A: FnOnce() -> RA + Send,
    B: FnOnce() -> RB + Send,
    RA: Send,
    RB: Send,
{
    let mut ra = None;
    let mut rb = None;
    {
        let ra = &mut ra;
        let rb = &mut rb;
        scope(move |s| {
            s.spawn(move |_| *rb = Some(b()));
            *ra = Some(a());
        });
    }
    (ra.unwrap(), rb.unwrap())
}

// ------------------------------------------------- parallel-item engine

struct Slots<T>(Vec<UnsafeCell<Option<T>>>);
// SAFETY: each index is claimed by exactly one task (unique fetch_add result).
unsafe impl<T: Send> Sync for Slots<T> {}

impl<T> Slots<T> {
    fn new(n: usize) -> Self {
        Slots((0..n).map(|_| UnsafeCell::new(None)).collect())
    }
    fn from_vec(v: Vec<T>) -> Self {
        Slots(v.into_iter().map(|x| UnsafeCell::new(Some(x))).collect())
    }
    unsafe fn take(&self, i: usize) -> Option<T> {
        (*self.0[i].get()).take()
    }
    unsafe fn put(&self, i: usize, v: T) {
        *self.0[i].get() = Some(v);
    }
}

/// Run `g(i, item_i, out_i)` for every item, on up to `num_threads` simulated
/// tasks of the current pool which claim indices from a shared counter (one
/// scheduling point per item).  Results come back in index order, whatever
/// order the closures ran in.
pub(crate) fn execute<B, R, G>(items: Vec<B>, g: G) -> Vec<Vec<R>>
where
    B: Send,
    R: Send,
    G: Fn(usize, B, &mut Vec<R>) + Sync,
{
    let n = items.len();
    if n == 0 {
        return Vec::new();
    }
    ensure_in_pool(|pool| {
        verif_rt::ctx::with(|c| {
            c.stats.par_batches += 1;
            c.stats.par_items += n as u64;
        });
        let input = Slots::from_vec(items);
        let output: Slots<Vec<R>> = Slots::new(n);
        let next = AtomicUsize::new(0);
        let stop = std::sync::atomic::AtomicBool::new(false);
        let first_panic: StdMutex<Option<Box<dyn Any + Send>>> = StdMutex::new(None);
        let work = || loop {
            if stop.load(std::sync::atomic::Ordering::Relaxed) {
                break;
            }
            let i = next.fetch_add(1, Ordering::SeqCst);
            if i >= n {
                break;
            }
            // SAFETY: index i is ours alone.
            let item = unsafe { input.take(i) }.expect("item claimed twice");
            let mut out = Vec::new();
            match catch_unwind(AssertUnwindSafe(|| {
                verif_rt::fault_point("par_item");
                g(i, item, &mut out)
            })) {
                Ok(()) => unsafe { output.put(i, out) },
                Err(p) => {
                    verif_rt::release_deferred();
                    stop.store(true, std::sync::atomic::Ordering::Relaxed);
                    let mut fp = first_panic.lock().unwrap();
                    if fp.is_none() {
                        *fp = Some(p);
                    }
                }
            }
        };
        let work_ref: &(dyn Fn() + Sync) = &work;
        // SAFETY: helpers are joined before this function returns.
        let work_static: &'static (dyn Fn() + Sync) = unsafe { std::mem::transmute(work_ref) };
        let mut helpers = Vec::new();
        let want = pool.threads.min(n).saturating_sub(1);
        for _ in 0..want {
            if !pool.try_take_slot() {
                break;
            }
            let p2 = pool.clone();
            helpers.push(shuttle::thread::spawn(move || {
                set_current(Some(p2.clone()));
                work_static();
                p2.leave();
            }));
        }
        work();
        pool.leave();
        for h in helpers {
            if let Err(p) = h.join() {
                let mut fp = first_panic.lock().unwrap();
                if fp.is_none() {
                    *fp = Some(p);
                }
            }
        }
        pool.enter();
        if let Some(p) = first_panic.lock().unwrap().take() {
            resume_unwind(p);
        }
        (0..n)
            .map(|i| unsafe { output.take(i) }.unwrap_or_default())
            .collect()
    })
}
