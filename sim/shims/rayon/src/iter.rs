//! Parallel iterators of the stand-in.
//!
//! Model: a parallel iterator is a vector of *base items* plus a per-item closure
//! chain.  A consuming operation hands both to `pool::execute`, which runs the
//! chain for every item on the simulated pool tasks in a scheduler-chosen order
//! and returns the per-item outputs in index order.  So: closures run
//! concurrently and in any order; `collect` on an indexed iterator is ordered;
//! reductions combine in index order (legal for the associative operations rayon
//! requires).

use crate::pool::execute;
use std::collections::{BTreeMap, BTreeSet, HashMap, HashSet, LinkedList, VecDeque};
use std::hash::{BuildHasher, Hash};

pub trait ParallelIterator: Sized + Send {
    type Item: Send;

    /// Run `g` for every item; outputs are returned per base item, in order.
    #[doc(hidden)]
    fn drive<R, G>(self, g: G) -> Vec<Vec<R>>
    where
        R: Send,
        G: Fn(usize, Self::Item, &mut Vec<R>) + Sync + Send;

    fn for_each<OP>(self, op: OP)
    where
        OP: Fn(Self::Item) + Sync + Send,
    {
        self.drive::<(), _>(move |_, x, _| op(x));
    }

    fn for_each_with<OP, T>(self, init: T, op: OP)
    where
        OP: Fn(&mut T, Self::Item) + Sync + Send,
        T: Send + Clone + Sync,
    {
        self.drive::<(), _>(move |_, x, _| {
            let mut t = init.clone();
            op(&mut t, x)
        });
    }

    fn try_for_each<OP, E>(self, op: OP) -> Result<(), E>
    where
        OP: Fn(Self::Item) -> Result<(), E> + Sync + Send,
        E: Send,
    {
        let res = self.drive::<Result<(), E>, _>(move |_, x, out| out.push(op(x)));
        for r in res.into_iter().flatten() {
            r?;
        }
        Ok(())
    }

    fn count(self) -> usize {
        self.drive::<(), _>(|_, _, out| out.push(()))
            .into_iter()
            .map(|v| v.len())
            .sum()
    }

    fn map<F, R>(self, map_op: F) -> Map<Self, F>
    where
        F: Fn(Self::Item) -> R + Sync + Send,
        R: Send,
    {
        Map { base: self, f: map_op }
    }

    fn map_with<F, T, R>(self, init: T, map_op: F) -> MapWith<Self, T, F>
    where
        F: Fn(&mut T, Self::Item) -> R + Sync + Send,
        T: Send + Clone + Sync,
        R: Send,
    {
        MapWith {
            base: self,
            init,
            f: map_op,
        }
    }

    /// `init` is called as often as the pool likes (here: once per pool task
    /// that takes part); the value is shared by the items that task happens to
    /// process, in the order it processes them.
    fn map_init<F, INIT, T, R>(self, init: INIT, map_op: F) -> MapInit<Self, INIT, F>
    where
        F: Fn(&mut T, Self::Item) -> R + Sync + Send,
        INIT: Fn() -> T + Sync + Send,
        R: Send,
    {
        MapInit {
            base: self,
            init,
            f: map_op,
        }
    }

    fn for_each_init<OP, INIT, T>(self, init: INIT, op: OP)
    where
        OP: Fn(&mut T, Self::Item) + Sync + Send,
        INIT: Fn() -> T + Sync + Send,
    {
        self.map_init(init, op).drive::<(), _>(|_, _, _| {});
    }

    fn inspect<OP>(self, inspect_op: OP) -> Inspect<Self, OP>
    where
        OP: Fn(&Self::Item) + Sync + Send,
    {
        Inspect {
            base: self,
            f: inspect_op,
        }
    }

    fn filter<P>(self, filter_op: P) -> Filter<Self, P>
    where
        P: Fn(&Self::Item) -> bool + Sync + Send,
    {
        Filter {
            base: self,
            p: filter_op,
        }
    }

    fn filter_map<P, R>(self, filter_op: P) -> FilterMap<Self, P>
    where
        P: Fn(Self::Item) -> Option<R> + Sync + Send,
        R: Send,
    {
        FilterMap {
            base: self,
            p: filter_op,
        }
    }

    fn flat_map_iter<F, SI>(self, map_op: F) -> FlatMapIter<Self, F>
    where
        F: Fn(Self::Item) -> SI + Sync + Send,
        SI: IntoIterator,
        SI::Item: Send,
    {
        FlatMapIter { base: self, f: map_op }
    }

    fn flat_map<F, PI>(self, map_op: F) -> FlatMapIter<Self, FlatPar<F>>
    where
        F: Fn(Self::Item) -> PI + Sync + Send,
        PI: IntoParallelIterator,
    {
        FlatMapIter {
            base: self,
            f: FlatPar(map_op),
        }
    }

    fn flatten_iter(self) -> FlatMapIter<Self, fn(Self::Item) -> Self::Item>
    where
        Self::Item: IntoIterator,
        <Self::Item as IntoIterator>::Item: Send,
    {
        fn id<T>(t: T) -> T {
            t
        }
        FlatMapIter {
            base: self,
            f: id::<Self::Item>,
        }
    }

    fn cloned<'a, T>(self) -> Map<Self, fn(&'a T) -> T>
    where
        T: 'a + Clone + Send + Sync,
        Self: ParallelIterator<Item = &'a T>,
    {
        fn cl<T: Clone>(t: &T) -> T {
            t.clone()
        }
        Map {
            base: self,
            f: cl::<T>,
        }
    }

    fn copied<'a, T>(self) -> Map<Self, fn(&'a T) -> T>
    where
        T: 'a + Copy + Send + Sync,
        Self: ParallelIterator<Item = &'a T>,
    {
        fn cp<T: Copy>(t: &T) -> T {
            *t
        }
        Map {
            base: self,
            f: cp::<T>,
        }
    }

    fn collect<C>(self) -> C
    where
        C: FromParallelIterator<Self::Item>,
    {
        C::from_par_iter(self)
    }

    fn collect_vec_list(self) -> LinkedList<Vec<Self::Item>> {
        let mut l = LinkedList::new();
        l.push_back(self.into_seq_vec());
        l
    }

    #[doc(hidden)]
    fn into_seq_vec(self) -> Vec<Self::Item> {
        self.drive::<Self::Item, _>(|_, x, out| out.push(x))
            .into_iter()
            .flatten()
            .collect()
    }

    fn sum<S>(self) -> S
    where
        S: Send + std::iter::Sum<Self::Item> + std::iter::Sum<S>,
    {
        self.into_seq_vec().into_iter().sum()
    }

    fn product<P>(self) -> P
    where
        P: Send + std::iter::Product<Self::Item> + std::iter::Product<P>,
    {
        self.into_seq_vec().into_iter().product()
    }

    /// rayon reduces every split from its own `identity()` and then combines the partial
    /// results; the model does the same over seeded contiguous splits.
    fn reduce<OP, ID>(self, identity: ID, op: OP) -> Self::Item
    where
        OP: Fn(Self::Item, Self::Item) -> Self::Item + Sync + Send,
        ID: Fn() -> Self::Item + Sync + Send,
    {
        let parts = split_fold(self.into_seq_vec(), &identity, &op);
        parts.into_iter().reduce(&op).unwrap_or_else(identity)
    }

    fn reduce_with<OP>(self, op: OP) -> Option<Self::Item>
    where
        OP: Fn(Self::Item, Self::Item) -> Self::Item + Sync + Send,
    {
        self.into_seq_vec().into_iter().reduce(op)
    }

    /// rayon folds every split into its own accumulator (started from `identity()`); how
    /// the input is split is up to rayon.  The model cuts the items into 1..=8 contiguous
    /// segments at seeded places (one segment in a third of the calls).
    fn fold<T, ID, F>(self, identity: ID, fold_op: F) -> VecIter<T>
    where
        F: Fn(T, Self::Item) -> T + Sync + Send,
        ID: Fn() -> T + Sync + Send,
        T: Send,
    {
        VecIter { items: split_fold(self.into_seq_vec(), &identity, &fold_op) }
    }

    fn fold_with<T, F>(self, init: T, fold_op: F) -> VecIter<T>
    where
        F: Fn(T, Self::Item) -> T + Sync + Send,
        T: Send + Clone + Sync,
    {
        self.fold(move || init.clone(), fold_op)
    }

    fn min_by<F>(self, f: F) -> Option<Self::Item>
    where
        F: Sync + Send + Fn(&Self::Item, &Self::Item) -> std::cmp::Ordering,
    {
        self.into_seq_vec().into_iter().min_by(f)
    }

    fn max_by<F>(self, f: F) -> Option<Self::Item>
    where
        F: Sync + Send + Fn(&Self::Item, &Self::Item) -> std::cmp::Ordering,
    {
        self.into_seq_vec().into_iter().max_by(f)
    }

    fn update<F>(self, update_op: F) -> Map<Self, impl Fn(Self::Item) -> Self::Item + Sync + Send>
    where
        F: Fn(&mut Self::Item) + Sync + Send,
    {
        self.map(move |mut x| {
            update_op(&mut x);
            x
        })
    }

    fn find_map_any<P, R>(self, predicate: P) -> Option<R>
    where
        P: Fn(Self::Item) -> Option<R> + Sync + Send,
        R: Send,
    {
        self.filter_map(predicate).into_seq_vec().into_iter().next()
    }

    fn find_map_first<P, R>(self, predicate: P) -> Option<R>
    where
        P: Fn(Self::Item) -> Option<R> + Sync + Send,
        R: Send,
    {
        self.filter_map(predicate).into_seq_vec().into_iter().next()
    }

    fn partition<A, B, P>(self, predicate: P) -> (A, B)
    where
        A: Default + Send + Extend<Self::Item>,
        B: Default + Send + Extend<Self::Item>,
        P: Fn(&Self::Item) -> bool + Sync + Send,
    {
        let mut a = A::default();
        let mut b = B::default();
        let flagged = self.map(move |x| (predicate(&x), x)).into_seq_vec();
        for (yes, x) in flagged {
            if yes {
                a.extend(std::iter::once(x));
            } else {
                b.extend(std::iter::once(x));
            }
        }
        (a, b)
    }

    fn try_for_each_with<OP, T, E>(self, init: T, op: OP) -> Result<(), E>
    where
        OP: Fn(&mut T, Self::Item) -> Result<(), E> + Sync + Send,
        T: Send + Clone + Sync,
        E: Send,
    {
        self.try_for_each(move |x| {
            let mut t = init.clone();
            op(&mut t, x)
        })
    }

    fn flatten(self) -> FlatMapIter<Self, FlatPar<fn(Self::Item) -> Self::Item>>
    where
        Self::Item: IntoParallelIterator,
    {
        fn id<T>(t: T) -> T {
            t
        }
        self.flat_map(id::<Self::Item> as fn(Self::Item) -> Self::Item)
    }

    fn min(self) -> Option<Self::Item>
    where
        Self::Item: Ord,
    {
        self.into_seq_vec().into_iter().min()
    }

    fn max(self) -> Option<Self::Item>
    where
        Self::Item: Ord,
    {
        self.into_seq_vec().into_iter().max()
    }

    fn min_by_key<K, F>(self, f: F) -> Option<Self::Item>
    where
        K: Ord + Send,
        F: Sync + Send + Fn(&Self::Item) -> K,
    {
        self.into_seq_vec().into_iter().min_by_key(f)
    }

    fn max_by_key<K, F>(self, f: F) -> Option<Self::Item>
    where
        K: Ord + Send,
        F: Sync + Send + Fn(&Self::Item) -> K,
    {
        self.into_seq_vec().into_iter().max_by_key(f)
    }

    fn any<P>(self, predicate: P) -> bool
    where
        P: Fn(Self::Item) -> bool + Sync + Send,
    {
        self.map(predicate).into_seq_vec().into_iter().any(|b| b)
    }

    fn all<P>(self, predicate: P) -> bool
    where
        P: Fn(Self::Item) -> bool + Sync + Send,
    {
        self.map(predicate).into_seq_vec().into_iter().all(|b| b)
    }

    fn find_any<P>(self, predicate: P) -> Option<Self::Item>
    where
        P: Fn(&Self::Item) -> bool + Sync + Send,
    {
        self.filter(predicate).into_seq_vec().into_iter().next()
    }

    fn find_first<P>(self, predicate: P) -> Option<Self::Item>
    where
        P: Fn(&Self::Item) -> bool + Sync + Send,
    {
        self.filter(predicate).into_seq_vec().into_iter().next()
    }

    fn unzip<A, B, FromA, FromB>(self) -> (FromA, FromB)
    where
        Self: ParallelIterator<Item = (A, B)>,
        FromA: Default + Send + Extend<A>,
        FromB: Default + Send + Extend<B>,
        A: Send,
        B: Send,
    {
        let mut a = FromA::default();
        let mut b = FromB::default();
        for (x, y) in self.into_seq_vec() {
            a.extend(std::iter::once(x));
            b.extend(std::iter::once(y));
        }
        (a, b)
    }

    fn chain<C>(self, chain: C) -> VecIter<Self::Item>
    where
        C: IntoParallelIterator<Item = Self::Item>,
    {
        let mut v = self.into_seq_vec();
        v.extend(chain.into_par_iter().into_seq_vec());
        VecIter { items: v }
    }

    fn opt_len(&self) -> Option<usize> {
        None
    }
}

pub trait IndexedParallelIterator: ParallelIterator {
    fn len(&self) -> usize;

    fn enumerate(self) -> Enumerate<Self> {
        Enumerate { base: self }
    }

    fn zip<Z>(self, zip_op: Z) -> VecIter<(Self::Item, <Z::Iter as ParallelIterator>::Item)>
    where
        Z: IntoParallelIterator,
        Z::Iter: IndexedParallelIterator,
    {
        let a = self.into_seq_vec();
        let b = zip_op.into_par_iter().into_seq_vec();
        VecIter {
            items: a.into_iter().zip(b).collect(),
        }
    }

    fn with_min_len(self, _min: usize) -> Self {
        self
    }

    fn with_max_len(self, _max: usize) -> Self {
        self
    }

    fn collect_into_vec(self, target: &mut Vec<Self::Item>) {
        *target = self.into_seq_vec();
    }

    fn chunks(self, chunk_size: usize) -> VecIter<Vec<Self::Item>> {
        assert!(chunk_size != 0, "chunk_size must not be zero");
        let v = self.into_seq_vec();
        let mut out = Vec::new();
        let mut cur = Vec::new();
        for x in v {
            cur.push(x);
            if cur.len() == chunk_size {
                out.push(std::mem::take(&mut cur));
            }
        }
        if !cur.is_empty() {
            out.push(cur);
        }
        VecIter { items: out }
    }

    fn rev(self) -> VecIter<Self::Item> {
        let mut v = self.into_seq_vec();
        v.reverse();
        VecIter { items: v }
    }

    fn skip(self, n: usize) -> VecIter<Self::Item> {
        VecIter {
            items: self.into_seq_vec().into_iter().skip(n).collect(),
        }
    }

    fn take(self, n: usize) -> VecIter<Self::Item> {
        VecIter {
            items: self.into_seq_vec().into_iter().take(n).collect(),
        }
    }

    fn position_any<P>(self, predicate: P) -> Option<usize>
    where
        P: Fn(Self::Item) -> bool + Sync + Send,
    {
        self.map(predicate).into_seq_vec().into_iter().position(|b| b)
    }
}

// ------------------------------------------------------------ base iterators

/// Owning base iterator.
/// Fold `items` over seeded contiguous segments, one accumulator per segment.
fn split_fold<X, T, ID, F>(items: Vec<X>, identity: &ID, fold_op: &F) -> Vec<T>
where
    ID: Fn() -> T,
    F: Fn(T, X) -> T,
{
    let n = items.len();
    let mut cuts: Vec<usize> = Vec::new();
    if n >= 2 && verif_rt::ctx::model_choice(3) != 0 {
        let segs = 2 + verif_rt::ctx::model_choice(7.min(n as u64 - 1)) as usize;
        while cuts.len() < segs - 1 {
            let c = 1 + verif_rt::ctx::model_choice(n as u64 - 1) as usize;
            if !cuts.contains(&c) {
                cuts.push(c);
            }
        }
        cuts.sort_unstable();
    }
    let mut out = Vec::with_capacity(cuts.len() + 1);
    let mut acc = identity();
    let mut next = 0usize;
    for (i, x) in items.into_iter().enumerate() {
        if next < cuts.len() && cuts[next] == i {
            out.push(std::mem::replace(&mut acc, identity()));
            next += 1;
        }
        acc = fold_op(acc, x);
    }
    out.push(acc);
    out
}

pub struct VecIter<T> {
    pub(crate) items: Vec<T>,
}

impl<T: Send> ParallelIterator for VecIter<T> {
    type Item = T;
    fn drive<R, G>(self, g: G) -> Vec<Vec<R>>
    where
        R: Send,
        G: Fn(usize, T, &mut Vec<R>) + Sync + Send,
    {
        execute(self.items, g)
    }
    fn opt_len(&self) -> Option<usize> {
        Some(self.items.len())
    }
}

impl<T: Send> IndexedParallelIterator for VecIter<T> {
    fn len(&self) -> usize {
        self.items.len()
    }
}

// ------------------------------------------------------------------ adaptors

pub struct Map<I, F> {
    base: I,
    f: F,
}

impl<I, F, R> ParallelIterator for Map<I, F>
where
    I: ParallelIterator,
    F: Fn(I::Item) -> R + Sync + Send,
    R: Send,
{
    type Item = R;
    fn drive<R2, G>(self, g: G) -> Vec<Vec<R2>>
    where
        R2: Send,
        G: Fn(usize, R, &mut Vec<R2>) + Sync + Send,
    {
        let f = self.f;
        self.base.drive(move |i, x, out| g(i, f(x), out))
    }
    fn opt_len(&self) -> Option<usize> {
        self.base.opt_len()
    }
}

impl<I, F, R> IndexedParallelIterator for Map<I, F>
where
    I: IndexedParallelIterator,
    F: Fn(I::Item) -> R + Sync + Send,
    R: Send,
{
    fn len(&self) -> usize {
        self.base.len()
    }
}

pub struct MapWith<I, T, F> {
    base: I,
    init: T,
    f: F,
}

impl<I, T, F, R> ParallelIterator for MapWith<I, T, F>
where
    I: ParallelIterator,
    T: Send + Clone + Sync,
    F: Fn(&mut T, I::Item) -> R + Sync + Send,
    R: Send,
{
    type Item = R;
    fn drive<R2, G>(self, g: G) -> Vec<Vec<R2>>
    where
        R2: Send,
        G: Fn(usize, R, &mut Vec<R2>) + Sync + Send,
    {
        let f = self.f;
        let init = self.init;
        self.base.drive(move |i, x, out| {
            let mut t = init.clone();
            g(i, f(&mut t, x), out)
        })
    }
}

pub struct MapInit<I, INIT, F> {
    base: I,
    init: INIT,
    f: F,
}

/// Per-task states of a `map_init`; everything runs on one OS thread, so the
/// states never really cross threads.
struct TaskStates<T>(std::sync::Mutex<std::collections::HashMap<usize, T>>);
unsafe impl<T> Sync for TaskStates<T> {}
unsafe impl<T> Send for TaskStates<T> {}

impl<T> TaskStates<T> {
    fn take(&self, k: usize) -> Option<T> {
        self.0.lock().unwrap().remove(&k)
    }
    fn put(&self, k: usize, v: T) {
        self.0.lock().unwrap().insert(k, v);
    }
}

impl<I, INIT, T, F, R> ParallelIterator for MapInit<I, INIT, F>
where
    I: ParallelIterator,
    INIT: Fn() -> T + Sync + Send,
    F: Fn(&mut T, I::Item) -> R + Sync + Send,
    R: Send,
{
    type Item = R;
    fn drive<R2, G>(self, g: G) -> Vec<Vec<R2>>
    where
        R2: Send,
        G: Fn(usize, R, &mut Vec<R2>) + Sync + Send,
    {
        let f = self.f;
        let init = self.init;
        let states: TaskStates<T> = TaskStates(std::sync::Mutex::new(std::collections::HashMap::new()));
        self.base.drive(move |i, x, out| {
            let me: usize = shuttle::current::get_current_task().map(usize::from).unwrap_or(0);
            // take the state out while the user closure runs (it may yield)
            let taken = states.take(me);
            let mut st = match taken {
                Some(s) => s,
                None => init(),
            };
            let r = f(&mut st, x);
            states.put(me, st);
            g(i, r, out)
        })
    }
    fn opt_len(&self) -> Option<usize> {
        self.base.opt_len()
    }
}

impl<I, INIT, T, F, R> IndexedParallelIterator for MapInit<I, INIT, F>
where
    I: IndexedParallelIterator,
    INIT: Fn() -> T + Sync + Send,
    F: Fn(&mut T, I::Item) -> R + Sync + Send,
    R: Send,
{
    fn len(&self) -> usize {
        self.base.len()
    }
}

pub struct Inspect<I, F> {
    base: I,
    f: F,
}

impl<I, F> ParallelIterator for Inspect<I, F>
where
    I: ParallelIterator,
    F: Fn(&I::Item) + Sync + Send,
{
    type Item = I::Item;
    fn drive<R2, G>(self, g: G) -> Vec<Vec<R2>>
    where
        R2: Send,
        G: Fn(usize, I::Item, &mut Vec<R2>) + Sync + Send,
    {
        let f = self.f;
        self.base.drive(move |i, x, out| {
            f(&x);
            g(i, x, out)
        })
    }
}

impl<I, F> IndexedParallelIterator for Inspect<I, F>
where
    I: IndexedParallelIterator,
    F: Fn(&I::Item) + Sync + Send,
{
    fn len(&self) -> usize {
        self.base.len()
    }
}

pub struct Filter<I, P> {
    base: I,
    p: P,
}

impl<I, P> ParallelIterator for Filter<I, P>
where
    I: ParallelIterator,
    P: Fn(&I::Item) -> bool + Sync + Send,
{
    type Item = I::Item;
    fn drive<R2, G>(self, g: G) -> Vec<Vec<R2>>
    where
        R2: Send,
        G: Fn(usize, I::Item, &mut Vec<R2>) + Sync + Send,
    {
        let p = self.p;
        self.base.drive(move |i, x, out| {
            if p(&x) {
                g(i, x, out)
            }
        })
    }
}

pub struct FilterMap<I, P> {
    base: I,
    p: P,
}

impl<I, P, R> ParallelIterator for FilterMap<I, P>
where
    I: ParallelIterator,
    P: Fn(I::Item) -> Option<R> + Sync + Send,
    R: Send,
{
    type Item = R;
    fn drive<R2, G>(self, g: G) -> Vec<Vec<R2>>
    where
        R2: Send,
        G: Fn(usize, R, &mut Vec<R2>) + Sync + Send,
    {
        let p = self.p;
        self.base.drive(move |i, x, out| {
            if let Some(y) = p(x) {
                g(i, y, out)
            }
        })
    }
}

/// Function object used by `flat_map`: maps to a parallel iterator and
/// evaluates it in place.
pub struct FlatPar<F>(F);

pub trait FlatFn<T>: Sync + Send {
    type Out: Send;
    type Iter: Iterator<Item = Self::Out>;
    fn call(&self, t: T) -> Self::Iter;
}

impl<T, F, SI> FlatFn<T> for F
where
    F: Fn(T) -> SI + Sync + Send,
    SI: IntoIterator,
    SI::Item: Send,
{
    type Out = SI::Item;
    type Iter = SI::IntoIter;
    fn call(&self, t: T) -> Self::Iter {
        (self)(t).into_iter()
    }
}

impl<T, F, PI> FlatFn<T> for FlatPar<F>
where
    F: Fn(T) -> PI + Sync + Send,
    PI: IntoParallelIterator,
{
    type Out = PI::Item;
    type Iter = std::vec::IntoIter<PI::Item>;
    fn call(&self, t: T) -> Self::Iter {
        (self.0)(t).into_par_iter().into_seq_vec().into_iter()
    }
}

pub struct FlatMapIter<I, F> {
    base: I,
    f: F,
}

impl<I, F> ParallelIterator for FlatMapIter<I, F>
where
    I: ParallelIterator,
    F: FlatFn<I::Item>,
{
    type Item = F::Out;
    fn drive<R2, G>(self, g: G) -> Vec<Vec<R2>>
    where
        R2: Send,
        G: Fn(usize, F::Out, &mut Vec<R2>) + Sync + Send,
    {
        let f = self.f;
        self.base.drive(move |i, x, out| {
            for y in f.call(x) {
                g(i, y, out)
            }
        })
    }
}

pub struct Enumerate<I> {
    base: I,
}

impl<I> ParallelIterator for Enumerate<I>
where
    I: IndexedParallelIterator,
{
    type Item = (usize, I::Item);
    fn drive<R2, G>(self, g: G) -> Vec<Vec<R2>>
    where
        R2: Send,
        G: Fn(usize, (usize, I::Item), &mut Vec<R2>) + Sync + Send,
    {
        self.base.drive(move |i, x, out| g(i, (i, x), out))
    }
    fn opt_len(&self) -> Option<usize> {
        Some(self.base.len())
    }
}

impl<I> IndexedParallelIterator for Enumerate<I>
where
    I: IndexedParallelIterator,
{
    fn len(&self) -> usize {
        self.base.len()
    }
}

// ------------------------------------------------------- conversion traits

pub trait IntoParallelIterator {
    type Iter: ParallelIterator<Item = Self::Item>;
    type Item: Send;
    fn into_par_iter(self) -> Self::Iter;
}

impl<I: ParallelIterator> IntoParallelIterator for I {
    type Iter = I;
    type Item = I::Item;
    fn into_par_iter(self) -> I {
        self
    }
}

pub trait IntoParallelRefIterator<'data> {
    type Iter: ParallelIterator<Item = Self::Item>;
    type Item: Send + 'data;
    fn par_iter(&'data self) -> Self::Iter;
}

impl<'data, I: 'data + ?Sized> IntoParallelRefIterator<'data> for I
where
    &'data I: IntoParallelIterator,
{
    type Iter = <&'data I as IntoParallelIterator>::Iter;
    type Item = <&'data I as IntoParallelIterator>::Item;
    fn par_iter(&'data self) -> Self::Iter {
        self.into_par_iter()
    }
}

pub trait IntoParallelRefMutIterator<'data> {
    type Iter: ParallelIterator<Item = Self::Item>;
    type Item: Send + 'data;
    fn par_iter_mut(&'data mut self) -> Self::Iter;
}

impl<'data, I: 'data + ?Sized> IntoParallelRefMutIterator<'data> for I
where
    &'data mut I: IntoParallelIterator,
{
    type Iter = <&'data mut I as IntoParallelIterator>::Iter;
    type Item = <&'data mut I as IntoParallelIterator>::Item;
    fn par_iter_mut(&'data mut self) -> Self::Iter {
        self.into_par_iter()
    }
}

impl<T: Send> IntoParallelIterator for Vec<T> {
    type Iter = VecIter<T>;
    type Item = T;
    fn into_par_iter(self) -> VecIter<T> {
        VecIter { items: self }
    }
}

impl<'a, T: Sync + 'a> IntoParallelIterator for &'a Vec<T> {
    type Iter = VecIter<&'a T>;
    type Item = &'a T;
    fn into_par_iter(self) -> VecIter<&'a T> {
        VecIter {
            items: self.iter().collect(),
        }
    }
}

impl<'a, T: Send + 'a> IntoParallelIterator for &'a mut Vec<T> {
    type Iter = VecIter<&'a mut T>;
    type Item = &'a mut T;
    fn into_par_iter(self) -> VecIter<&'a mut T> {
        VecIter {
            items: self.iter_mut().collect(),
        }
    }
}

impl<'a, T: Sync + 'a> IntoParallelIterator for &'a [T] {
    type Iter = VecIter<&'a T>;
    type Item = &'a T;
    fn into_par_iter(self) -> VecIter<&'a T> {
        VecIter {
            items: self.iter().collect(),
        }
    }
}

impl<'a, T: Send + 'a> IntoParallelIterator for &'a mut [T] {
    type Iter = VecIter<&'a mut T>;
    type Item = &'a mut T;
    fn into_par_iter(self) -> VecIter<&'a mut T> {
        VecIter {
            items: self.iter_mut().collect(),
        }
    }
}

impl<'a, T: Sync + 'a, const N: usize> IntoParallelIterator for &'a [T; N] {
    type Iter = VecIter<&'a T>;
    type Item = &'a T;
    fn into_par_iter(self) -> VecIter<&'a T> {
        VecIter {
            items: self.iter().collect(),
        }
    }
}

impl<T: Send, const N: usize> IntoParallelIterator for [T; N] {
    type Iter = VecIter<T>;
    type Item = T;
    fn into_par_iter(self) -> VecIter<T> {
        VecIter {
            items: self.into_iter().collect(),
        }
    }
}

impl<T: Send> IntoParallelIterator for VecDeque<T> {
    type Iter = VecIter<T>;
    type Item = T;
    fn into_par_iter(self) -> VecIter<T> {
        VecIter {
            items: self.into_iter().collect(),
        }
    }
}

impl<T: Send> IntoParallelIterator for Option<T> {
    type Iter = VecIter<T>;
    type Item = T;
    fn into_par_iter(self) -> VecIter<T> {
        VecIter {
            items: self.into_iter().collect(),
        }
    }
}

macro_rules! range_impl {
    ($($t:ty),*) => {$(
        impl IntoParallelIterator for std::ops::Range<$t> {
            type Iter = VecIter<$t>;
            type Item = $t;
            fn into_par_iter(self) -> VecIter<$t> {
                VecIter { items: self.collect() }
            }
        }
        impl IntoParallelIterator for std::ops::RangeInclusive<$t> {
            type Iter = VecIter<$t>;
            type Item = $t;
            fn into_par_iter(self) -> VecIter<$t> {
                VecIter { items: self.collect() }
            }
        }
    )*};
}
range_impl!(u8, u16, u32, u64, usize, i8, i16, i32, i64, isize);

impl<K: Send, V: Send, S> IntoParallelIterator for HashMap<K, V, S> {
    type Iter = VecIter<(K, V)>;
    type Item = (K, V);
    fn into_par_iter(self) -> Self::Iter {
        VecIter {
            items: self.into_iter().collect(),
        }
    }
}

impl<'a, K: Sync + 'a, V: Sync + 'a, S> IntoParallelIterator for &'a HashMap<K, V, S> {
    type Iter = VecIter<(&'a K, &'a V)>;
    type Item = (&'a K, &'a V);
    fn into_par_iter(self) -> Self::Iter {
        VecIter {
            items: self.iter().collect(),
        }
    }
}

impl<'a, K: Sync + 'a, V: Send + 'a, S> IntoParallelIterator for &'a mut HashMap<K, V, S> {
    type Iter = VecIter<(&'a K, &'a mut V)>;
    type Item = (&'a K, &'a mut V);
    fn into_par_iter(self) -> Self::Iter {
        VecIter {
            items: self.iter_mut().collect(),
        }
    }
}

impl<T: Send, S> IntoParallelIterator for HashSet<T, S> {
    type Iter = VecIter<T>;
    type Item = T;
    fn into_par_iter(self) -> Self::Iter {
        VecIter {
            items: self.into_iter().collect(),
        }
    }
}

impl<'a, T: Sync + 'a, S> IntoParallelIterator for &'a HashSet<T, S> {
    type Iter = VecIter<&'a T>;
    type Item = &'a T;
    fn into_par_iter(self) -> Self::Iter {
        VecIter {
            items: self.iter().collect(),
        }
    }
}

impl<K: Send, V: Send> IntoParallelIterator for BTreeMap<K, V> {
    type Iter = VecIter<(K, V)>;
    type Item = (K, V);
    fn into_par_iter(self) -> Self::Iter {
        VecIter {
            items: self.into_iter().collect(),
        }
    }
}

impl<'a, K: Sync + 'a, V: Sync + 'a> IntoParallelIterator for &'a BTreeMap<K, V> {
    type Iter = VecIter<(&'a K, &'a V)>;
    type Item = (&'a K, &'a V);
    fn into_par_iter(self) -> Self::Iter {
        VecIter {
            items: self.iter().collect(),
        }
    }
}

impl<T: Send> IntoParallelIterator for BTreeSet<T> {
    type Iter = VecIter<T>;
    type Item = T;
    fn into_par_iter(self) -> Self::Iter {
        VecIter {
            items: self.into_iter().collect(),
        }
    }
}

impl<'a, T: Sync + 'a> IntoParallelIterator for &'a BTreeSet<T> {
    type Iter = VecIter<&'a T>;
    type Item = &'a T;
    fn into_par_iter(self) -> Self::Iter {
        VecIter {
            items: self.iter().collect(),
        }
    }
}

// ------------------------------------------------------------------ collect

pub trait FromParallelIterator<T>
where
    T: Send,
{
    fn from_par_iter<I>(par_iter: I) -> Self
    where
        I: IntoParallelIterator<Item = T>;
}

macro_rules! from_par_via_iter {
    ($( [$($gen:tt)*] $ty:ty, $item:ty );* $(;)?) => {$(
        impl<$($gen)*> FromParallelIterator<$item> for $ty {
            fn from_par_iter<I>(par_iter: I) -> Self
            where
                I: IntoParallelIterator<Item = $item>,
            {
                par_iter.into_par_iter().into_seq_vec().into_iter().collect()
            }
        }
    )*};
}

from_par_via_iter! {
    [T: Send] Vec<T>, T;
    [T: Send] VecDeque<T>, T;
    [T: Send] LinkedList<T>, T;
    [T: Send + Ord] BTreeSet<T>, T;
    [K: Send + Ord, V: Send] BTreeMap<K, V>, (K, V);
    [T: Send + Eq + Hash, S: BuildHasher + Default + Send] HashSet<T, S>, T;
    [K: Send + Eq + Hash, V: Send, S: BuildHasher + Default + Send] HashMap<K, V, S>, (K, V);
    [] String, char;
    [] String, String;
    ['a] String, &'a str;
    [] (), ();
}

impl<C, T, E> FromParallelIterator<Result<T, E>> for Result<C, E>
where
    C: FromParallelIterator<T>,
    T: Send,
    E: Send,
{
    fn from_par_iter<I>(par_iter: I) -> Self
    where
        I: IntoParallelIterator<Item = Result<T, E>>,
    {
        let v = par_iter.into_par_iter().into_seq_vec();
        let mut ok = Vec::with_capacity(v.len());
        for r in v {
            ok.push(r?);
        }
        Ok(C::from_par_iter(VecIter { items: ok }.seq()))
    }
}

impl<C, T> FromParallelIterator<Option<T>> for Option<C>
where
    C: FromParallelIterator<T>,
    T: Send,
{
    fn from_par_iter<I>(par_iter: I) -> Self
    where
        I: IntoParallelIterator<Item = Option<T>>,
    {
        let v = par_iter.into_par_iter().into_seq_vec();
        let mut ok = Vec::with_capacity(v.len());
        for r in v {
            ok.push(r?);
        }
        Some(C::from_par_iter(VecIter { items: ok }.seq()))
    }
}

/// Already-evaluated items: consuming them again needs no pool tasks.
pub struct SeqIter<T> {
    items: Vec<T>,
}

impl<T: Send> VecIter<T> {
    fn seq(self) -> SeqIter<T> {
        SeqIter { items: self.items }
    }
}

impl<T: Send> ParallelIterator for SeqIter<T> {
    type Item = T;
    fn drive<R, G>(self, g: G) -> Vec<Vec<R>>
    where
        R: Send,
        G: Fn(usize, T, &mut Vec<R>) + Sync + Send,
    {
        self.items
            .into_iter()
            .enumerate()
            .map(|(i, x)| {
                let mut out = Vec::new();
                g(i, x, &mut out);
                out
            })
            .collect()
    }
}

pub trait ParallelExtend<T>
where
    T: Send,
{
    fn par_extend<I>(&mut self, par_iter: I)
    where
        I: IntoParallelIterator<Item = T>;
}

impl<T: Send> ParallelExtend<T> for Vec<T> {
    fn par_extend<I>(&mut self, par_iter: I)
    where
        I: IntoParallelIterator<Item = T>,
    {
        self.extend(par_iter.into_par_iter().into_seq_vec());
    }
}

pub trait ParallelBridge: Sized {
    fn par_bridge(self) -> VecIter<Self::Item>
    where
        Self: Iterator,
        Self::Item: Send;
}

impl<T: Iterator + Send> ParallelBridge for T
where
    T::Item: Send,
{
    /// Not modelled: the lazy pulling of rayon's bridge; the source iterator is
    /// drained first, the items are then processed in parallel.
    fn par_bridge(self) -> VecIter<T::Item> {
        VecIter {
            items: self.collect(),
        }
    }
}

pub fn empty<T: Send>() -> VecIter<T> {
    VecIter { items: Vec::new() }
}

pub fn once<T: Send>(item: T) -> VecIter<T> {
    VecIter { items: vec![item] }
}

pub fn repeatn<T: Clone + Send>(item: T, n: usize) -> VecIter<T> {
    VecIter {
        items: vec![item; n],
    }
}
