//! Simulation stand-in for `scc`: the REAL `scc::HashMap` behind a thin wrapper
//! that (a) makes every map operation a scheduling point of the simulator and
//! (b) defaults the hasher to a fixed-key one, so the iteration (`scan`) order is
//! a deterministic function of the operation history.  Everything else of the
//! real crate is re-exported unchanged.
//!
//! An entry guard (`Entry`, `OccupiedEntry`, `VacantEntry`) holds a real bucket lock of
//! scc.  While a task holds one -- and while a closure passed to `update`, `read`, `scan`,
//! ... runs under such a lock -- the simulator does not switch away from it
//! (`verif_rt::RealGuard`): on the one OS thread another task reaching for the same bucket
//! would block for good, where in a real run it would simply wait its turn.
//!
//! Granularity: one scc call is atomic for the simulator (the yield is in front
//! of the call, not inside it); scc's own bucket locking / epoch code runs for
//! real on the single simulator thread.

use std::borrow::Borrow;
use std::hash::{BuildHasher, Hash, Hasher};
use std::ops::Deref;

pub use real_scc::{
    bag, ebr, hash_cache, hash_index, hash_set, queue, stack, tree_index, Bag, HashCache,
    HashIndex, HashSet, LinkedEntry, LinkedList, Queue, Stack, TreeIndex,
};

pub mod hash_map {
    pub use super::{Entry, FixedState, HashMap, OccupiedEntry, VacantEntry};
    pub use real_scc::hash_map::Reserve;
}

/// Deterministic `BuildHasher` (FNV-1a 64 with a final avalanche).
#[derive(Clone, Copy, Debug, Default)]
pub struct FixedState;

pub struct FixedHasher(u64);

impl Hasher for FixedHasher {
    #[inline]
    fn write(&mut self, bytes: &[u8]) {
        for &b in bytes {
            self.0 ^= b as u64;
            self.0 = self.0.wrapping_mul(0x100_0000_01b3);
        }
    }
    #[inline]
    fn finish(&self) -> u64 {
        let mut z = self.0;
        z = (z ^ (z >> 30)).wrapping_mul(0xBF58_476D_1CE4_E5B9);
        z = (z ^ (z >> 27)).wrapping_mul(0x94D0_49BB_1331_11EB);
        z ^ (z >> 31)
    }
}

impl BuildHasher for FixedState {
    type Hasher = FixedHasher;
    #[inline]
    fn build_hasher(&self) -> FixedHasher {
        FixedHasher(0xcbf2_9ce4_8422_2325)
    }
}

#[inline]
fn point(label: &'static str) {
    verif_rt::ctx::with(|c| c.stats.map_ops += 1);
    verif_rt::sched_point(label);
}

pub struct HashMap<K, V, H = FixedState>
where
    H: BuildHasher,
{
    inner: real_scc::HashMap<K, V, H>,
}

impl<K, V> HashMap<K, V, FixedState>
where
    K: Eq + Hash,
{
    #[inline]
    pub fn new() -> Self {
        HashMap {
            inner: real_scc::HashMap::with_hasher(FixedState),
        }
    }
    #[inline]
    pub fn with_capacity(capacity: usize) -> Self {
        HashMap {
            inner: real_scc::HashMap::with_capacity_and_hasher(capacity, FixedState),
        }
    }
}

impl<K, V, H> HashMap<K, V, H>
where
    H: BuildHasher,
{
    #[inline]
    pub fn with_hasher(build_hasher: H) -> Self {
        HashMap {
            inner: real_scc::HashMap::with_hasher(build_hasher),
        }
    }
    #[inline]
    pub fn with_capacity_and_hasher(capacity: usize, build_hasher: H) -> Self {
        HashMap {
            inner: real_scc::HashMap::with_capacity_and_hasher(capacity, build_hasher),
        }
    }
}

impl<K, V, H> HashMap<K, V, H>
where
    K: Eq + Hash,
    H: BuildHasher,
{
    #[inline]
    pub fn entry(&self, key: K) -> Entry<'_, K, V, H> {
        point("map_entry");
        Entry::wrap(self.inner.entry(key))
    }
    #[inline]
    pub fn first_entry(&self) -> Option<OccupiedEntry<'_, K, V, H>> {
        point("map_first_entry");
        self.inner.first_entry().map(OccupiedEntry::wrap)
    }
    #[inline]
    pub fn any_entry<P: FnMut(&K, &V) -> bool>(&self, pred: P) -> Option<OccupiedEntry<'_, K, V, H>> {
        point("map_first_entry");
        let _g = verif_rt::RealGuard::new();
        self.inner.any_entry(pred).map(OccupiedEntry::wrap)
    }
    #[inline]
    pub fn insert(&self, key: K, val: V) -> Result<(), (K, V)> {
        point("map_insert");
        self.inner.insert(key, val)
    }
    #[inline]
    pub fn upsert(&self, key: K, val: V) -> Option<V> {
        point("map_upsert");
        self.inner.upsert(key, val)
    }
    #[inline]
    pub fn update<Q, U, R>(&self, key: &Q, updater: U) -> Option<R>
    where
        K: Borrow<Q>,
        Q: Eq + Hash + ?Sized,
        U: FnOnce(&K, &mut V) -> R,
    {
        point("map_update");
        let _g = verif_rt::RealGuard::new();
        self.inner.update(key, updater)
    }
    #[inline]
    pub fn remove<Q>(&self, key: &Q) -> Option<(K, V)>
    where
        K: Borrow<Q>,
        Q: Eq + Hash + ?Sized,
    {
        point("map_remove");
        self.inner.remove(key)
    }
    #[inline]
    pub fn remove_if<Q, F: FnOnce(&mut V) -> bool>(&self, key: &Q, condition: F) -> Option<(K, V)>
    where
        K: Borrow<Q>,
        Q: Eq + Hash + ?Sized,
    {
        point("map_remove");
        let _g = verif_rt::RealGuard::new();
        self.inner.remove_if(key, condition)
    }
    #[inline]
    pub fn get<Q>(&self, key: &Q) -> Option<OccupiedEntry<'_, K, V, H>>
    where
        K: Borrow<Q>,
        Q: Eq + Hash + ?Sized,
    {
        point("map_get");
        self.inner.get(key).map(OccupiedEntry::wrap)
    }
    #[inline]
    pub fn read<Q, R, F: FnOnce(&K, &V) -> R>(&self, key: &Q, reader: F) -> Option<R>
    where
        K: Borrow<Q>,
        Q: Eq + Hash + ?Sized,
    {
        point("map_read");
        let _g = verif_rt::RealGuard::new();
        self.inner.read(key, reader)
    }
    #[inline]
    pub fn contains<Q>(&self, key: &Q) -> bool
    where
        K: Borrow<Q>,
        Q: Eq + Hash + ?Sized,
    {
        point("map_contains");
        self.inner.contains(key)
    }
    #[inline]
    pub fn scan<F: FnMut(&K, &V)>(&self, scanner: F) {
        point("map_scan");
        let _g = verif_rt::RealGuard::new();
        self.inner.scan(scanner)
    }
    #[inline]
    pub fn any<P: FnMut(&K, &V) -> bool>(&self, pred: P) -> bool {
        point("map_scan");
        let _g = verif_rt::RealGuard::new();
        self.inner.any(pred)
    }
    #[inline]
    pub fn retain<F: FnMut(&K, &mut V) -> bool>(&self, pred: F) {
        point("map_retain");
        let _g = verif_rt::RealGuard::new();
        self.inner.retain(pred)
    }
    #[inline]
    pub fn prune<F: FnMut(&K, V) -> Option<V>>(&self, pred: F) {
        point("map_retain");
        let _g = verif_rt::RealGuard::new();
        self.inner.prune(pred)
    }
    #[inline]
    pub fn clear(&self) {
        point("map_clear");
        self.inner.clear()
    }
    #[inline]
    pub fn len(&self) -> usize {
        point("map_len");
        self.inner.len()
    }
    #[inline]
    pub fn is_empty(&self) -> bool {
        point("map_len");
        self.inner.is_empty()
    }
}

/// See the crate documentation: the real guard plus the "no preemption" token.  Field
/// order matters: the real lock is released first, then the token is returned.
pub struct OccupiedEntry<'h, K, V, H = FixedState>
where
    H: BuildHasher,
{
    inner: real_scc::hash_map::OccupiedEntry<'h, K, V, H>,
    g: verif_rt::RealGuard,
}

pub struct VacantEntry<'h, K, V, H = FixedState>
where
    H: BuildHasher,
{
    inner: real_scc::hash_map::VacantEntry<'h, K, V, H>,
    g: verif_rt::RealGuard,
}

pub enum Entry<'h, K, V, H = FixedState>
where
    H: BuildHasher,
{
    Occupied(OccupiedEntry<'h, K, V, H>),
    Vacant(VacantEntry<'h, K, V, H>),
}

impl<'h, K, V, H> Entry<'h, K, V, H>
where
    K: Eq + Hash,
    H: BuildHasher,
{
    fn wrap(e: real_scc::hash_map::Entry<'h, K, V, H>) -> Self {
        match e {
            real_scc::hash_map::Entry::Occupied(o) => Entry::Occupied(OccupiedEntry::wrap(o)),
            real_scc::hash_map::Entry::Vacant(v) => Entry::Vacant(VacantEntry { inner: v, g: verif_rt::RealGuard::new() }),
        }
    }
    #[inline]
    pub fn or_insert(self, val: V) -> OccupiedEntry<'h, K, V, H> {
        self.or_insert_with(|| val)
    }
    #[inline]
    pub fn or_insert_with<F: FnOnce() -> V>(self, constructor: F) -> OccupiedEntry<'h, K, V, H> {
        self.or_insert_with_key(|_| constructor())
    }
    #[inline]
    pub fn or_insert_with_key<F: FnOnce(&K) -> V>(self, constructor: F) -> OccupiedEntry<'h, K, V, H> {
        match self {
            Entry::Occupied(o) => o,
            Entry::Vacant(v) => {
                let val = constructor(v.key());
                v.insert_entry(val)
            }
        }
    }
    #[inline]
    pub fn key(&self) -> &K {
        match self {
            Entry::Occupied(o) => o.key(),
            Entry::Vacant(v) => v.key(),
        }
    }
    #[inline]
    pub fn and_modify<F>(self, f: F) -> Self
    where
        F: FnOnce(&mut V),
    {
        match self {
            Entry::Occupied(mut o) => {
                f(o.get_mut());
                Entry::Occupied(o)
            }
            Entry::Vacant(_) => self,
        }
    }
    #[inline]
    pub fn insert_entry(self, val: V) -> OccupiedEntry<'h, K, V, H> {
        match self {
            Entry::Occupied(mut o) => {
                o.insert(val);
                o
            }
            Entry::Vacant(v) => v.insert_entry(val),
        }
    }
}

impl<'h, K, V, H> Entry<'h, K, V, H>
where
    K: Eq + Hash,
    V: Default,
    H: BuildHasher,
{
    #[inline]
    pub fn or_default(self) -> OccupiedEntry<'h, K, V, H> {
        self.or_insert_with(V::default)
    }
}

impl<'h, K, V, H> OccupiedEntry<'h, K, V, H>
where
    K: Eq + Hash,
    H: BuildHasher,
{
    fn wrap(inner: real_scc::hash_map::OccupiedEntry<'h, K, V, H>) -> Self {
        OccupiedEntry { inner, g: verif_rt::RealGuard::new() }
    }
    #[inline]
    pub fn key(&self) -> &K {
        self.inner.key()
    }
    #[inline]
    pub fn remove_entry(self) -> (K, V) {
        let OccupiedEntry { inner, g } = self;
        let r = inner.remove_entry();
        drop(g);
        r
    }
    #[inline]
    pub fn get(&self) -> &V {
        self.inner.get()
    }
    #[inline]
    pub fn get_mut(&mut self) -> &mut V {
        self.inner.get_mut()
    }
    #[inline]
    pub fn insert(&mut self, val: V) -> V {
        self.inner.insert(val)
    }
    #[inline]
    pub fn remove(self) -> V {
        self.remove_entry().1
    }
    #[inline]
    pub fn next(self) -> Option<Self> {
        let OccupiedEntry { inner, g } = self;
        inner.next().map(|inner| OccupiedEntry { inner, g })
    }
}

impl<'h, K, V, H> Deref for OccupiedEntry<'h, K, V, H>
where
    K: Eq + Hash,
    H: BuildHasher,
{
    type Target = V;
    #[inline]
    fn deref(&self) -> &V {
        self.get()
    }
}

impl<'h, K, V, H> std::ops::DerefMut for OccupiedEntry<'h, K, V, H>
where
    K: Eq + Hash,
    H: BuildHasher,
{
    #[inline]
    fn deref_mut(&mut self) -> &mut V {
        self.get_mut()
    }
}

impl<'h, K, V, H> VacantEntry<'h, K, V, H>
where
    K: Eq + Hash,
    H: BuildHasher,
{
    #[inline]
    pub fn key(&self) -> &K {
        self.inner.key()
    }
    #[inline]
    pub fn into_key(self) -> K {
        let VacantEntry { inner, g } = self;
        let k = inner.into_key();
        drop(g);
        k
    }
    #[inline]
    pub fn insert_entry(self, val: V) -> OccupiedEntry<'h, K, V, H> {
        let VacantEntry { inner, g } = self;
        OccupiedEntry { inner: inner.insert_entry(val), g }
    }
}

impl<K, V, H> Deref for HashMap<K, V, H>
where
    H: BuildHasher,
{
    type Target = real_scc::HashMap<K, V, H>;
    #[inline]
    fn deref(&self) -> &Self::Target {
        &self.inner
    }
}

impl<K, V, H> Clone for HashMap<K, V, H>
where
    K: Clone + Eq + Hash,
    V: Clone,
    H: BuildHasher + Clone,
{
    #[inline]
    fn clone(&self) -> Self {
        HashMap {
            inner: self.inner.clone(),
        }
    }
}

impl<K, V, H> Default for HashMap<K, V, H>
where
    H: BuildHasher + Default,
{
    #[inline]
    fn default() -> Self {
        HashMap {
            inner: real_scc::HashMap::with_hasher(H::default()),
        }
    }
}

impl<K, V, H> std::fmt::Debug for HashMap<K, V, H>
where
    K: std::fmt::Debug + Eq + Hash,
    V: std::fmt::Debug,
    H: BuildHasher,
{
    fn fmt(&self, f: &mut std::fmt::Formatter<'_>) -> std::fmt::Result {
        self.inner.fmt(f)
    }
}

impl<K, V, H> PartialEq for HashMap<K, V, H>
where
    K: Eq + Hash,
    V: PartialEq,
    H: BuildHasher,
{
    fn eq(&self, other: &Self) -> bool {
        self.inner == other.inner
    }
}
