//! Simulation stand-in for `scc`: the REAL `scc::HashMap` behind a thin wrapper
//! that (a) makes every map operation a scheduling point of the simulator and
//! (b) defaults the hasher to a fixed-key one, so the iteration (`scan`) order is
//! a deterministic function of the operation history.  Everything else of the
//! real crate is re-exported unchanged.
//!
//! Granularity: one scc call is atomic for the simulator (the yield is in front
//! of the call, not inside it); scc's own bucket locking / epoch code runs for
//! real on the single simulator thread.

use std::borrow::Borrow;
use std::hash::{BuildHasher, Hash, Hasher};
use std::ops::Deref;

pub use real_scc::{
    bag, ebr, hash_cache, hash_index, hash_set, queue, stack, tree_index, Bag, HashCache,
    HashIndex, HashSet, LinkedEntry, LinkedList, Queue, Stack, TreeIndex,
};

pub mod hash_map {
    pub use super::{FixedState, HashMap};
    pub use real_scc::hash_map::{Entry, OccupiedEntry, Reserve, VacantEntry};
}

/// Deterministic `BuildHasher` (FNV-1a 64 with a final avalanche).
#[derive(Clone, Copy, Debug, Default)]
pub struct FixedState;

pub struct FixedHasher(u64);

impl Hasher for FixedHasher {
    #[inline]
    fn write(&mut self, bytes: &[u8]) {
        for &b in bytes {
            self.0 ^= b as u64;
            self.0 = self.0.wrapping_mul(0x100_0000_01b3);
        }
    }
    #[inline]
    fn finish(&self) -> u64 {
        let mut z = self.0;
        z = (z ^ (z >> 30)).wrapping_mul(0xBF58_476D_1CE4_E5B9);
        z = (z ^ (z >> 27)).wrapping_mul(0x94D0_49BB_1331_11EB);
        z ^ (z >> 31)
    }
}

impl BuildHasher for FixedState {
    type Hasher = FixedHasher;
    #[inline]
    fn build_hasher(&self) -> FixedHasher {
        FixedHasher(0xcbf2_9ce4_8422_2325)
    }
}

#[inline]
fn point(label: &'static str) {
    verif_rt::ctx::with(|c| c.stats.map_ops += 1);
    verif_rt::sched_point(label);
}

pub struct HashMap<K, V, H = FixedState>
where
    H: BuildHasher,
{
    inner: real_scc::HashMap<K, V, H>,
}

impl<K, V> HashMap<K, V, FixedState>
where
    K: Eq + Hash,
{
    #[inline]
    pub fn new() -> Self {
        HashMap {
            inner: real_scc::HashMap::with_hasher(FixedState),
        }
    }
    #[inline]
    pub fn with_capacity(capacity: usize) -> Self {
        HashMap {
            inner: real_scc::HashMap::with_capacity_and_hasher(capacity, FixedState),
        }
    }
}

impl<K, V, H> HashMap<K, V, H>
where
    H: BuildHasher,
{
    #[inline]
    pub fn with_hasher(build_hasher: H) -> Self {
        HashMap {
            inner: real_scc::HashMap::with_hasher(build_hasher),
        }
    }
    #[inline]
    pub fn with_capacity_and_hasher(capacity: usize, build_hasher: H) -> Self {
        HashMap {
            inner: real_scc::HashMap::with_capacity_and_hasher(capacity, build_hasher),
        }
    }
}

impl<K, V, H> HashMap<K, V, H>
where
    K: Eq + Hash,
    H: BuildHasher,
{
    #[inline]
    pub fn entry(&self, key: K) -> real_scc::hash_map::Entry<'_, K, V, H> {
        point("map_entry");
        self.inner.entry(key)
    }
    #[inline]
    pub fn first_entry(&self) -> Option<real_scc::hash_map::OccupiedEntry<'_, K, V, H>> {
        point("map_first_entry");
        self.inner.first_entry()
    }
    #[inline]
    pub fn insert(&self, key: K, val: V) -> Result<(), (K, V)> {
        point("map_insert");
        self.inner.insert(key, val)
    }
    #[inline]
    pub fn upsert(&self, key: K, val: V) -> Option<V> {
        point("map_upsert");
        self.inner.upsert(key, val)
    }
    #[inline]
    pub fn update<Q, U, R>(&self, key: &Q, updater: U) -> Option<R>
    where
        K: Borrow<Q>,
        Q: Eq + Hash + ?Sized,
        U: FnOnce(&K, &mut V) -> R,
    {
        point("map_update");
        self.inner.update(key, updater)
    }
    #[inline]
    pub fn remove<Q>(&self, key: &Q) -> Option<(K, V)>
    where
        K: Borrow<Q>,
        Q: Eq + Hash + ?Sized,
    {
        point("map_remove");
        self.inner.remove(key)
    }
    #[inline]
    pub fn remove_if<Q, F: FnOnce(&mut V) -> bool>(&self, key: &Q, condition: F) -> Option<(K, V)>
    where
        K: Borrow<Q>,
        Q: Eq + Hash + ?Sized,
    {
        point("map_remove");
        self.inner.remove_if(key, condition)
    }
    #[inline]
    pub fn get<Q>(&self, key: &Q) -> Option<real_scc::hash_map::OccupiedEntry<'_, K, V, H>>
    where
        K: Borrow<Q>,
        Q: Eq + Hash + ?Sized,
    {
        point("map_get");
        self.inner.get(key)
    }
    #[inline]
    pub fn read<Q, R, F: FnOnce(&K, &V) -> R>(&self, key: &Q, reader: F) -> Option<R>
    where
        K: Borrow<Q>,
        Q: Eq + Hash + ?Sized,
    {
        point("map_read");
        self.inner.read(key, reader)
    }
    #[inline]
    pub fn contains<Q>(&self, key: &Q) -> bool
    where
        K: Borrow<Q>,
        Q: Eq + Hash + ?Sized,
    {
        point("map_contains");
        self.inner.contains(key)
    }
    #[inline]
    pub fn scan<F: FnMut(&K, &V)>(&self, scanner: F) {
        point("map_scan");
        self.inner.scan(scanner)
    }
    #[inline]
    pub fn any<P: FnMut(&K, &V) -> bool>(&self, pred: P) -> bool {
        point("map_scan");
        self.inner.any(pred)
    }
    #[inline]
    pub fn retain<F: FnMut(&K, &mut V) -> bool>(&self, pred: F) {
        point("map_retain");
        self.inner.retain(pred)
    }
    #[inline]
    pub fn prune<F: FnMut(&K, V) -> Option<V>>(&self, pred: F) {
        point("map_retain");
        self.inner.prune(pred)
    }
    #[inline]
    pub fn clear(&self) {
        point("map_clear");
        self.inner.clear()
    }
    #[inline]
    pub fn len(&self) -> usize {
        point("map_len");
        self.inner.len()
    }
    #[inline]
    pub fn is_empty(&self) -> bool {
        point("map_len");
        self.inner.is_empty()
    }
}

impl<K, V, H> Deref for HashMap<K, V, H>
where
    H: BuildHasher,
{
    type Target = real_scc::HashMap<K, V, H>;
    #[inline]
    fn deref(&self) -> &Self::Target {
        &self.inner
    }
}

impl<K, V, H> Clone for HashMap<K, V, H>
where
    K: Clone + Eq + Hash,
    V: Clone,
    H: BuildHasher + Clone,
{
    #[inline]
    fn clone(&self) -> Self {
        HashMap {
            inner: self.inner.clone(),
        }
    }
}

impl<K, V, H> Default for HashMap<K, V, H>
where
    H: BuildHasher + Default,
{
    #[inline]
    fn default() -> Self {
        HashMap {
            inner: real_scc::HashMap::with_hasher(H::default()),
        }
    }
}

impl<K, V, H> std::fmt::Debug for HashMap<K, V, H>
where
    K: std::fmt::Debug + Eq + Hash,
    V: std::fmt::Debug,
    H: BuildHasher,
{
    fn fmt(&self, f: &mut std::fmt::Formatter<'_>) -> std::fmt::Result {
        self.inner.fmt(f)
    }
}

impl<K, V, H> PartialEq for HashMap<K, V, H>
where
    K: Eq + Hash,
    V: PartialEq,
    H: BuildHasher,
{
    fn eq(&self, other: &Self) -> bool {
        self.inner == other.inner
    }
}
