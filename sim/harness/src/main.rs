//! kmsim -- deterministic simulation harness for kmertools.
//!
//!   kmsim run      --prop C05 --tier quick --seed S --worker W --workers N --count TOTAL --max-secs T --out DIR
//!   kmsim one      --prop C05 --tier quick --seed S --index I [--dump FILE]
//!   kmsim minimise IN.json OUT.json
//!   kmsim replay   FILE.json
//!
//! Exit codes: 0 = nothing found, 1 = violation(s) found / reproduced,
//! 2 = harness error.

mod common;
mod engines;
mod exec;
mod gen;
mod minimise;
mod model;
mod pipelines;

use common::*;
use exec::*;
use serde_json::json;
use std::collections::{BTreeMap, HashSet};
use std::io::Write;
use verif_rt::rng::{mix, Rng};

fn arg(args: &[String], name: &str) -> Option<String> {
    args.iter()
        .position(|a| a == name)
        .and_then(|i| args.get(i + 1).cloned())
}

fn arg_u64(args: &[String], name: &str, default: u64) -> u64 {
    arg(args, name).map(|s| s.parse().expect(name)).unwrap_or(default)
}

pub fn make_case(engine: &dyn Engine, verif_seed: u64, tier: &str, index: u64) -> Case {
    let run_seed = mix(&[verif_seed, verif_rt::rng::hash_str(engine.prop()), index]);
    let mut rng = Rng::new(run_seed);
    let mut case = engine.generate(&mut rng, tier);
    case.verif_seed = verif_seed;
    case.index = index;
    case.run_seed = run_seed;
    case
}

fn stats_json(s: &verif_rt::ctx::Stats) -> serde_json::Value {
    json!({
        "hook_events": s.hook_events,
        "points": s.points,
        "aborts_fired": s.aborts_fired,
        "streams_opened": s.streams_opened,
        "reads": s.reads,
        "short_reads": s.short_reads,
        "eintr": s.eintr,
        "boundary_hits": s.boundary_hits,
        "bytes_delivered": s.bytes_delivered,
        "delivery_modes": s.modes,
        "mmap_writes": s.mmap_writes,
        "mmap_writes_out_of_order": s.mmap_out_of_order,
        "pools_built": s.pools_built,
        "jobs_spawned": s.jobs_spawned,
        "par_items": s.par_items,
        "par_batches": s.par_batches,
        "max_pool_threads": s.max_pool_threads,
        "simulated_tasks_started": s.tasks_started,
        "helpers_not_started_beyond_24000_tasks": s.tasks_refused,
        "map_ops": s.map_ops,
    })
}

fn describe(case: &Case) -> serde_json::Value {
    json!({
        "index": case.index,
        "run_seed": case.run_seed,
        "records": case.records.len(),
        "bases": case.records.iter().map(|r| r.seq.len()).sum::<usize>(),
        "first_record": case.records.first().map(|r| json!({"id": r.id, "desc": r.desc, "seq": clip(&r.seq, 60)})),
        "container": case.container.describe(),
        "io": {"enabled": case.io.enabled, "mode": case.io.mode, "eintr_permille": case.io.eintr_permille},
        "sched": format!("{}:{}:{}", case.sched.kind, case.sched.a, case.sched.b),
        "params": case.params,
        "extra_runs": case.extra.len(),
    })
}

fn write_case_file(path: &std::path::Path, case: &Case, v: Option<&Violation>, trace: serde_json::Value) {
    let doc = json!({
        "format": "kmsim-replay-1",
        "property": case.prop,
        "violation": v.map(|v| json!({"clause": v.clause, "detail": v.detail})),
        "trace": trace,
        "case": case,
    });
    std::fs::write(path, serde_json::to_string_pretty(&doc).unwrap()).expect("write case file");
}

fn load_case_file(path: &str) -> (Case, Option<Violation>) {
    let text = std::fs::read_to_string(path).unwrap_or_else(|e| {
        eprintln!("cannot read {path}: {e}");
        std::process::exit(2)
    });
    let doc: serde_json::Value = serde_json::from_str(&text).unwrap_or_else(|e| {
        eprintln!("cannot parse {path}: {e}");
        std::process::exit(2)
    });
    let case: Case = serde_json::from_value(doc["case"].clone()).unwrap_or_else(|e| {
        eprintln!("bad case in {path}: {e}");
        std::process::exit(2)
    });
    let v = doc.get("violation").and_then(|v| {
        Some(Violation {
            clause: v.get("clause")?.as_str()?.to_string(),
            detail: v.get("detail")?.as_str()?.to_string(),
        })
    });
    (case, v)
}

fn trace_json(o: &Outcome) -> serde_json::Value {
    json!({
        "scheduler_steps": o.log.steps,
        "steps_with_choice": o.log.choice_steps,
        "context_switches": o.log.context_switches,
        "preemptions": o.log.preemptions,
        "tasks": o.log.max_task + 1,
        "executions": o.execs,
        "faults": stats_json(&o.stats),
    })
}

/// CPU time (user + system) of this process in clock ticks (100 per second on Linux).
fn cpu_ticks() -> u64 {
    let st = std::fs::read_to_string("/proc/self/stat").unwrap_or_default();
    let rest = st.rsplit_once(')').map(|x| x.1).unwrap_or("");
    let f: Vec<&str> = rest.split_whitespace().collect();
    let g = |i: usize| f.get(i).and_then(|x| x.parse::<u64>().ok()).unwrap_or(0);
    g(11) + g(12)
}

/// Scheduling state of the main (simulator) thread: 'S' sleeping (a futex or pipe wait),
/// 'D' uninterruptible (I/O, page reclaim), 'R' runnable, ...
fn main_thread_state() -> char {
    let pid = std::process::id();
    let st = std::fs::read_to_string(format!("/proc/{pid}/task/{pid}/stat")).unwrap_or_default();
    st.rsplit_once(')').and_then(|x| x.1.trim_start().chars().next()).unwrap_or('?')
}

/// Watchdog on a real OS thread (outside the simulation).  `beat` changes with every run.
/// A run is given up -- the process aborts, the supervisor re-runs that run alone -- when
/// (a) for `limit` seconds of wall clock the process has used next to no CPU (< 5 %) AND the
///     simulator thread was seen asleep (state 'S': waiting for a lock, not for the disk or
///     for memory) in at least nine samples of ten: it is blocked, e.g. on a real lock held
///     by a descheduled task; or
/// (b) the run has burnt `5 * limit` seconds of CPU: it spins without ever reaching a
///     scheduling point (runs that do reach them are bounded by their step budget).
/// Wall clock alone is not a criterion: on an overloaded machine a legitimate heavy run
/// (a bulk input through the counter: millions of scheduling points) takes minutes.
fn start_watchdog(beat: std::sync::Arc<std::sync::atomic::AtomicU64>, limit: u64) {
    std::thread::spawn(move || {
        let mut last = u64::MAX;
        let mut cpu_at_beat = cpu_ticks();
        let mut window: std::collections::VecDeque<(std::time::Instant, u64)> = std::collections::VecDeque::new();
        let mut states: std::collections::VecDeque<bool> = std::collections::VecDeque::new();
        loop {
            std::thread::sleep(std::time::Duration::from_secs(1));
            let b = beat.load(std::sync::atomic::Ordering::Relaxed);
            let now = std::time::Instant::now();
            let cpu = cpu_ticks();
            if b != last {
                last = b;
                cpu_at_beat = cpu;
                window.clear();
                states.clear();
            }
            window.push_back((now, cpu));
            states.push_back(main_thread_state() == 'S');
            while states.len() as u64 > limit {
                states.pop_front();
            }
            while window.len() > 2 && now.duration_since(window[1].0).as_secs() >= limit {
                window.pop_front();
            }
            let (t0, c0) = window[0];
            let wall = now.duration_since(t0).as_secs();
            let asleep = states.iter().filter(|x| **x).count();
            if wall >= limit && (cpu - c0) * 20 < wall * 100 && asleep * 10 >= states.len() * 9 {
                eprintln!("WATCHDOG: no progress for {wall}s (blocked: {} ms of CPU in that time; marker {b}), aborting", (cpu - c0) * 10);
                std::process::abort();
            }
            if cpu - cpu_at_beat >= limit * 5 * 100 {
                eprintln!("WATCHDOG: no progress: one run has used {}s of CPU without ending (marker {b}), aborting", (cpu - cpu_at_beat) / 100);
                std::process::abort();
            }
        }
    });
}

fn quiet_panics() {
    // panics are part of normal operation (caught and turned into verdicts);
    // keep stderr readable unless asked otherwise
    if std::env::var("KMSIM_PANIC_TRACE").is_err() {
        std::panic::set_hook(Box::new(|_| {}));
        verif_rt::sched::QUIET_PANICS.store(true, std::sync::atomic::Ordering::Relaxed);
    }
}

fn cmd_run(args: &[String]) -> i32 {
    let prop = arg(args, "--prop").expect("--prop");
    let tier = arg(args, "--tier").unwrap_or_else(|| "quick".into());
    let seed = arg_u64(args, "--seed", 1);
    let worker = arg_u64(args, "--worker", 0);
    let workers = arg_u64(args, "--workers", 1);
    let count = arg_u64(args, "--count", 1000);
    let max_secs = arg_u64(args, "--max-secs", 3600);
    let outdir = std::path::PathBuf::from(arg(args, "--out").expect("--out"));
    let max_viol = arg_u64(args, "--max-violations", 3);
    let engine = match engines::get(&prop) {
        Some(e) => e,
        None => {
            eprintln!("no engine for {prop}");
            return 2;
        }
    };
    quiet_panics();
    let sb = Sandbox::new();
    let start = std::time::Instant::now();
    let progress_path = outdir.join(format!("worker_{worker}.progress"));
    // a single run that makes no progress for --watchdog-secs aborts the worker;
    // the supervisor then re-runs that run index alone and reports it
    let beat = std::sync::Arc::new(std::sync::atomic::AtomicU64::new(0));
    start_watchdog(beat.clone(), arg_u64(args, "--watchdog-secs", 90));
    let mut runs = 0u64;
    let mut execs = 0u64;
    let mut steps = 0u64;
    let mut choice_steps = 0u64;
    let mut cs = 0u64;
    let mut preempt = 0u64;
    let mut nontrivial_runs = 0u64;
    let mut max_tasks = 0u32;
    let mut stall_windows = 0u64;
    let mut prio_changes = 0u64;
    let mut stats = verif_rt::ctx::Stats::default();
    let mut probes: BTreeMap<String, u64> = BTreeMap::new();
    let mut sched_kinds: BTreeMap<String, u64> = BTreeMap::new();
    let mut knobs: BTreeMap<String, BTreeMap<String, u64>> = BTreeMap::new();
    let mut hashes: HashSet<u64> = HashSet::new();
    let mut sched_hashes: HashSet<u64> = HashSet::new();
    let mut samples = Vec::new();
    let mut violations = Vec::new();
    let mut clause_counts: BTreeMap<String, u64> = BTreeMap::new();
    let mut violating_runs = 0u64;
    let mut index = worker;
    let mut stopped_by_time = false;
    let mut digests = std::env::var("KMSIM_DIGESTS")
        .ok()
        .map(|p| std::io::BufWriter::new(std::fs::File::create(p).expect("digest file")));
    let mut last_flush = std::time::Instant::now();
    // summaries are rewritten every few seconds, so that a worker that dies (UB
    // abort, watchdog, resource exhaustion) still leaves what it explored
    macro_rules! write_summary {
        () => {{
    let mut hf = std::fs::File::create(outdir.join(format!("worker_{worker}.hashes"))).unwrap();
        for h in &hashes {
            hf.write_all(&h.to_le_bytes()).unwrap();
        }
        let mut sf = std::fs::File::create(outdir.join(format!("worker_{worker}.schedhashes"))).unwrap();
        for h in &sched_hashes {
            sf.write_all(&h.to_le_bytes()).unwrap();
        }
        let summary = json!({
            "worker": worker,
            "meta": {"rule": engine.nontrivial_rule(), "real": engine.real_components(), "stub": engine.stub_components(), "required_probes": engine.required_probes()},
            "runs": runs,
            "executions": execs,
            "scheduler_steps": steps,
            "steps_with_choice": choice_steps,
            "context_switches": cs,
            "preemptions": preempt,
            "stall_windows": stall_windows,
            "pct_priority_changes": prio_changes,
            "max_tasks": max_tasks,
            "nontrivial_runs": nontrivial_runs,
            "sched_kinds": sched_kinds,
            "knobs": knobs,
            "faults": stats_json(&stats),
            "probes": probes,
            "samples": samples,
            "violations": violations,
                "violating_runs": violating_runs,
            "stopped_by_time": stopped_by_time,
            "wall_s": start.elapsed().as_secs_f64(),
        });
        std::fs::write(
            outdir.join(format!("worker_{worker}.json")),
            serde_json::to_string(&summary).unwrap(),
        )
        .unwrap();
        }};
    }
    while index < count {
        if start.elapsed().as_secs() >= max_secs {
            stopped_by_time = true;
            break;
        }
        std::fs::write(&progress_path, format!("{index}\n")).ok();
        beat.store(index.wrapping_add(1), std::sync::atomic::Ordering::Relaxed);
        let case = make_case(engine, seed, &tier, index);
        let o = run_case(engine, &case, &sb);
        if let Some(d) = digests.as_mut() {
            let dh = mix(&[
                verif_rt::rng::hash_str(&format!("{:?}", o.log.decisions)),
                o.digest,
                o.stats.reads,
                o.stats.short_reads,
                o.stats.eintr,
                o.stats.hook_events,
                verif_rt::rng::hash_str(&format!("{:?}", o.violation)),
                verif_rt::rng::hash_str(&format!("{:?}", o.probes)),
            ]);
            writeln!(d, "{} {:016x} steps={}", index, dh, o.log.steps).unwrap();
        }
        runs += 1;
        execs += o.execs;
        steps += o.steps_total;
        choice_steps += o.log.choice_steps;
        cs += o.log.context_switches;
        preempt += o.log.preemptions;
        stall_windows += o.log.stall_windows;
        prio_changes += o.log.priority_changes;
        if o.log.starve_victims > 0 {
            *probes.entry("starve_victims_taken".to_string()).or_insert(0) += o.log.starve_victims;
        }
        if o.log.starve_forced_steps > 0 {
            *probes.entry("starve_runs_where_victim_ran_only_when_all_else_blocked".to_string()).or_insert(0) += 1;
        }
        max_tasks = max_tasks.max(o.log.max_task + 1);
        merge_stats(&mut stats, &o.stats);
        for (k, v) in &o.probes {
            *probes.entry(k.clone()).or_insert(0) += v;
        }
        *sched_kinds.entry(case.sched.kind.clone()).or_insert(0) += 1;
        if case.records.len() >= 1000 {
            *probes.entry("records>=1000".to_string()).or_insert(0) += 1;
        }
        if case.records.iter().map(|r| r.seq.len()).sum::<usize>() >= (1 << 20) {
            *probes.entry("input>=1MiB".to_string()).or_insert(0) += 1;
        }
        if case.container.format == Format::Fastq && case.container.wrap > 0 && case.records.iter().any(|r| r.seq.len() > case.container.wrap) {
            *probes.entry("fastq_multi_line".to_string()).or_insert(0) += 1;
        }
        if case.records.iter().map(|r| r.seq.len()).sum::<usize>() >= (4 << 20) && case.records.len() > 1 {
            *probes.entry("input>=4MiB".to_string()).or_insert(0) += 1;
        }
        if case.records.iter().any(|r| r.seq.len() > (1 << 24)) {
            *probes.entry("record>2^24_bases".to_string()).or_insert(0) += 1;
        }
        if case.records.iter().any(|r| r.seq.len() >= 600_000 && r.seq.len() <= (1 << 24)) {
            *probes.entry("record>=600kb".to_string()).or_insert(0) += 1;
        }
        if case.records.len() >= 32768 {
            *probes.entry("records>=32768".to_string()).or_insert(0) += 1;
        }
        if case.records.len() > 65536 {
            *probes.entry("records>65536".to_string()).or_insert(0) += 1;
        }
        if case.records.len() >= 10000 {
            *probes.entry("records>=10000".to_string()).or_insert(0) += 1;
        }
        for (k, v) in &case.params {
            let vs = match v {
                serde_json::Value::String(s) => format!("{:?}", s),
                other => other.to_string(),
            };
            let h = knobs.entry(k.clone()).or_default();
            if h.len() < 40 || h.contains_key(&vs) {
                *h.entry(vs).or_insert(0) += 1;
            }
        }
        if o.log.choice_steps > 0 {
            sched_hashes.insert(o.log.schedule_hash);
        }
        if engine.is_nontrivial(&case, &o) {
            nontrivial_runs += 1;
            hashes.insert(mix(&[case.workload_hash(), o.log.schedule_hash, o.stats.short_reads, o.stats.eintr]));
        }
        if samples.len() < 2 {
            samples.push(describe(&case));
        }
        if let Some(v) = &o.violation {
            // keep at most two cases per oracle clause and go on exploring: a
            // violation that is a listed known finding must not hide another one
            let seen = clause_counts.entry(v.clause.clone()).or_insert(0u64);
            *seen += 1;
            if *seen <= 2 {
                let f = outdir.join(format!("viol_{worker}_{index}.json"));
                write_case_file(&f, &case, Some(v), trace_json(&o));
                violations.push(json!({"index": index, "clause": v.clause, "detail": v.detail, "file": path_str(&f)}));
            }
            violating_runs += 1;
            if violations.len() as u64 >= max_viol * 4 || violating_runs >= 200 {
                break;
            }
        }
        index += workers;
        if last_flush.elapsed().as_secs() >= 5 {
            last_flush = std::time::Instant::now();
            write_summary!();
        }
    }
    std::fs::remove_file(&progress_path).ok();
    write_summary!();
    if violations.is_empty() {
        0
    } else {
        1
    }
}

fn cmd_one(args: &[String]) -> i32 {
    let prop = arg(args, "--prop").expect("--prop");
    let tier = arg(args, "--tier").unwrap_or_else(|| "quick".into());
    let seed = arg_u64(args, "--seed", 1);
    let index = arg_u64(args, "--index", 0);
    let engine = match engines::get(&prop) {
        Some(e) => e,
        None => return 2,
    };
    let case = make_case(engine, seed, &tier, index);
    if let Some(d) = arg(args, "--dump") {
        write_case_file(std::path::Path::new(&d), &case, None, json!({}));
    }
    if args.iter().any(|a| a == "--no-exec") {
        return 0;
    }
    quiet_panics();
    start_watchdog(
        std::sync::Arc::new(std::sync::atomic::AtomicU64::new(1)),
        arg_u64(args, "--watchdog-secs", 60),
    );
    let sb = Sandbox::new();
    let o = run_case(engine, &case, &sb);
    match &o.violation {
        Some(v) => {
            println!("FOUND property={} index={} clause={} detail={}", prop, index, v.clause, v.detail);
            if let Some(d) = arg(args, "--dump") {
                write_case_file(std::path::Path::new(&d), &case, Some(v), trace_json(&o));
            }
            1
        }
        None => {
            println!("OK property={} index={} steps={} execs={}", prop, index, o.log.steps, o.execs);
            0
        }
    }
}

/// Re-execute, in this fresh process, the exact sequence of runs a worker made
/// (indices worker, worker+workers, ... , upto) and report the last one.  Used for
/// violations that need state left in the process by the runs before them (a
/// process-wide cache in the code under test, for instance).
fn run_seq(prop: &str, tier: &str, seed: u64, worker: u64, workers: u64, upto: u64) -> (Option<Violation>, Option<Case>) {
    let engine = match engines::get(prop) {
        Some(e) => e,
        None => return (None, None),
    };
    quiet_panics();
    let beat = std::sync::Arc::new(std::sync::atomic::AtomicU64::new(0));
    start_watchdog(beat.clone(), 120);
    let sb = Sandbox::new();
    let mut index = worker;
    let mut last = (None, None);
    while index <= upto {
        beat.store(index.wrapping_add(1), std::sync::atomic::Ordering::Relaxed);
        let case = make_case(engine, seed, tier, index);
        let o = run_case(engine, &case, &sb);
        if index == upto {
            last = (o.violation, Some(case));
        }
        index += workers;
    }
    last
}

fn cmd_seq(args: &[String]) -> i32 {
    let prop = arg(args, "--prop").expect("--prop");
    let tier = arg(args, "--tier").unwrap_or_else(|| "quick".into());
    let seed = arg_u64(args, "--seed", 1);
    let worker = arg_u64(args, "--worker", 0);
    let workers = arg_u64(args, "--workers", 1);
    let upto = arg_u64(args, "--upto", 0);
    let (v, case) = run_seq(&prop, &tier, seed, worker, workers, upto);
    match (v, case) {
        (Some(v), Some(case)) => {
            println!("FOUND property={} index={} clause={} detail={}", prop, upto, v.clause, v.detail);
            if let Some(d) = arg(args, "--dump") {
                let doc = json!({
                    "format": "kmsim-seq-replay-1",
                    "property": prop,
                    "violation": {"clause": v.clause, "detail": v.detail},
                    "sequence": {"tier": tier, "seed": seed, "worker": worker, "workers": workers, "upto": upto},
                    "note": "this violation does not reproduce when run alone in a fresh process: it needs the state that the earlier runs of the same worker left in the process (e.g. a process-wide cache in the code under test); replay re-executes the worker's whole run sequence up to the failing index",
                    "case": case,
                });
                std::fs::write(&d, serde_json::to_string_pretty(&doc).unwrap()).expect("write seq replay");
            }
            1
        }
        _ => {
            println!("OK property={} index={} (sequence replay)", prop, upto);
            0
        }
    }
}

fn cmd_minimise(args: &[String]) -> i32 {
    let (case, v) = load_case_file(&args[0]);
    let engine = match engines::get(&case.prop) {
        Some(e) => e,
        None => return 2,
    };
    quiet_panics();
    let sb = Sandbox::new();
    let v = match v {
        Some(v) => v,
        None => {
            let o = run_case(engine, &case, &sb);
            match o.violation {
                Some(v) => v,
                None => {
                    eprintln!("case does not fail");
                    return 2;
                }
            }
        }
    };
    let m = minimise::minimise(engine, &case, &v, &sb, 4000);
    let o = run_case(engine, &m.case, &sb);
    let mut trace = trace_json(&o);
    trace["minimisation"] = json!({
        "candidates_tried": m.tried,
        "accepted": m.accepted,
        "records_before": case.records.len(),
        "records_after": m.case.records.len(),
        "bases_before": case.records.iter().map(|r| r.seq.len()).sum::<usize>(),
        "bases_after": m.case.records.iter().map(|r| r.seq.len()).sum::<usize>(),
        "original_index": case.index,
        "original_run_seed": case.run_seed,
    });
    write_case_file(std::path::Path::new(&args[1]), &m.case, Some(&m.violation), trace);
    println!(
        "MINIMISED property={} clause={} records {}->{} tried={}",
        case.prop,
        m.violation.clause,
        case.records.len(),
        m.case.records.len(),
        m.tried
    );
    0
}

fn cmd_replay(args: &[String]) -> i32 {
    if let Ok(text) = std::fs::read_to_string(&args[0]) {
        if let Ok(doc) = serde_json::from_str::<serde_json::Value>(&text) {
            if doc.get("format").and_then(|f| f.as_str()) == Some("kmsim-seq-replay-1") {
                let sq = &doc["sequence"];
                let prop = doc["property"].as_str().unwrap_or("").to_string();
                let (v, _) = run_seq(
                    &prop,
                    sq["tier"].as_str().unwrap_or("quick"),
                    sq["seed"].as_u64().unwrap_or(1),
                    sq["worker"].as_u64().unwrap_or(0),
                    sq["workers"].as_u64().unwrap_or(1),
                    sq["upto"].as_u64().unwrap_or(0),
                );
                let exp_clause = doc["violation"]["clause"].as_str().unwrap_or("");
                return match v {
                    Some(v) => {
                        println!(
                            "REPLAY property={} reproduced={} clause={} detail={} (sequence of runs)",
                            prop,
                            v.clause == exp_clause,
                            v.clause,
                            v.detail
                        );
                        println!("VIOLATION property={} replay={}", prop, args[0]);
                        1
                    }
                    None => {
                        println!("REPLAY property={} reproduced=false (no violation on this tree)", prop);
                        0
                    }
                };
            }
        }
    }
    let (case, expected) = load_case_file(&args[0]);
    let engine = match engines::get(&case.prop) {
        Some(e) => e,
        None => {
            eprintln!("no engine for {}", case.prop);
            return 2;
        }
    };
    quiet_panics();
    start_watchdog(std::sync::Arc::new(std::sync::atomic::AtomicU64::new(1)), 300);
    let sb = Sandbox::new();
    let o = run_case(engine, &case, &sb);
    if o.log.diverged {
        println!("REPLAY property={} diverged=true (the recorded decision list no longer fits the code)", case.prop);
    }
    match (&o.violation, &expected) {
        (Some(v), Some(e)) => {
            let same = v.clause == e.clause && v.detail == e.detail;
            println!(
                "REPLAY property={} reproduced={} clause={} detail={}",
                case.prop, same, v.clause, v.detail
            );
            if same {
                println!("VIOLATION property={} replay={}", case.prop, args[0]);
            }
            1
        }
        (Some(v), None) => {
            println!("REPLAY property={} violation clause={} detail={}", case.prop, v.clause, v.detail);
            println!("VIOLATION property={} replay={}", case.prop, args[0]);
            1
        }
        (None, _) => {
            println!("REPLAY property={} reproduced=false (no violation on this tree)", case.prop);
            0
        }
    }
}

fn main() {
    let args: Vec<String> = std::env::args().skip(1).collect();
    if args.is_empty() {
        eprintln!("usage: kmsim run|one|minimise|replay ...");
        std::process::exit(2);
    }
    // Panics of the code under test are caught inside the simulated execution and become
    // verdicts there.  A panic that gets as far as this frame is the harness's own (a
    // scratch file that cannot be written because the tmpfs is full, a bug in an oracle):
    // exit 2, never a verdict about the property.
    let r = std::panic::catch_unwind(|| match args[0].as_str() {
        "run" => cmd_run(&args[1..]),
        "one" => cmd_one(&args[1..]),
        "minimise" => cmd_minimise(&args[1..]),
        "seq" => cmd_seq(&args[1..]),
        "replay" => cmd_replay(&args[1..]),
        other => {
            eprintln!("unknown command {other}");
            2
        }
    });
    let code = match r {
        Ok(c) => c,
        Err(p) => {
            eprintln!("HARNESS-ERROR: the harness itself panicked outside a simulated execution: {}", verif_rt::sched::panic_text(&p));
            2
        }
    };
    std::process::exit(code);
}
