//! Small executable reference models used as oracles.  Deliberately naive and
//! written from the property statements, not from the code under test.

use std::collections::BTreeMap;

#[inline]
pub fn base_code(b: u8) -> Option<u64> {
    match b {
        b'A' | b'a' => Some(0),
        b'C' | b'c' => Some(1),
        b'G' | b'g' => Some(2),
        b'T' | b't' | b'U' | b'u' => Some(3),
        _ => None,
    }
}

/// Canonical code of one window, if all its bytes are nucleotides.
pub fn canonical_window(w: &[u8]) -> Option<u64> {
    let k = w.len();
    let mut f = 0u64;
    let mut r = 0u64;
    for (i, &b) in w.iter().enumerate() {
        let c = base_code(b)?;
        f = (f << 2) | c;
        r |= (3 - c) << (2 * i);
    }
    let _ = k;
    Some(f.min(r))
}

/// Canonical k-mers of a sequence, in order (one per valid window).
pub fn canonical_kmers(seq: &[u8], k: usize) -> Vec<u64> {
    if k == 0 || seq.len() < k {
        return Vec::new();
    }
    (0..=seq.len() - k)
        .filter_map(|i| canonical_window(&seq[i..i + k]))
        .collect()
}

/// Multiset of canonical k-mers over all records.
pub fn count_kmers<'a>(seqs: impl Iterator<Item = &'a [u8]>, k: usize) -> BTreeMap<u64, u64> {
    let mut m = BTreeMap::new();
    for s in seqs {
        for c in canonical_kmers(s, k) {
            *m.entry(c).or_insert(0u64) += 1;
        }
    }
    m
}

pub fn kmer_text(code: u64, k: usize) -> String {
    (0..k)
        .map(|i| match (code >> (2 * (k - 1 - i))) & 3 {
            0 => 'A',
            1 => 'C',
            2 => 'G',
            _ => 'T',
        })
        .collect()
}

/// Chaos-game points of a nucleotide string in a square of side `s`, computed
/// with exact dyadic arithmetic: point i = num_i / 2^(i+1) (per coordinate,
/// in units of s).  Returns (x_num, y_num, shift) per point while the numerator
/// fits in u128, which covers the first 120 points; callers compare through f64
/// only where the value is exactly representable.
pub fn cgr_corner(b: u8) -> Option<(u64, u64)> {
    match b {
        b'A' | b'a' => Some((0, 0)),
        b'C' | b'c' => Some((0, 1)),
        b'G' | b'g' => Some((1, 1)),
        b'T' | b't' | b'U' | b'u' => Some((1, 0)),
        _ => None,
    }
}

/// f64 value of (num / 2^shift) * s, exact whenever the result is exactly
/// representable (num < 2^53 and s a small integer keep it so).
pub fn dyadic_to_f64(num: u128, shift: u32, s: f64) -> f64 {
    // (num * s) / 2^shift with both steps exact if num*s < 2^53
    (num as f64) * s / 2f64.powi(shift as i32)
}

/// Exact chaos-game numerators: point_i = (xn_i, yn_i) / 2^(i+1) * S, with the
/// centre as point_0 = 1/2.  Valid for the first `limit` points (u128).
pub fn cgr_points_exact(seq: &[u8], limit: usize) -> Option<Vec<(u128, u128, u32)>> {
    let mut out = Vec::new();
    // marker = xn / 2^sh ; start 1/2
    let (mut xn, mut yn, mut sh) = (1u128, 1u128, 1u32);
    for (i, &b) in seq.iter().enumerate() {
        if i >= limit {
            break;
        }
        let (cx, cy) = cgr_corner(b)?;
        // new = (corner + marker)/2 = (corner*2^sh + n) / 2^(sh+1)
        xn += (cx as u128) << sh;
        yn += (cy as u128) << sh;
        sh += 1;
        out.push((xn, yn, sh));
    }
    Some(out)
}
