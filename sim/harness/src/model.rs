//! Reference models (filled in per engine).
