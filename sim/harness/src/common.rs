//! Case description (everything a run depends on), serialisation of record
//! lists into the input containers, sandbox handling.

use serde::{Deserialize, Serialize};
use std::collections::BTreeMap;
use std::io::Write;
use std::path::{Path, PathBuf};
use verif_rt::io::{IoPlan, Mode};
use verif_rt::rng::Rng;
use verif_rt::sched::SchedSpec;

#[derive(Clone, Debug, Serialize, Deserialize, PartialEq)]
pub struct Rec {
    pub id: String,
    /// text after the id on the header line ("" = none)
    pub desc: String,
    pub seq: String,
}

#[derive(Clone, Debug, Serialize, Deserialize, PartialEq)]
pub enum Format {
    Fasta,
    Fastq,
}

#[derive(Clone, Debug, Serialize, Deserialize, PartialEq)]
pub struct Gz {
    /// where further gzip members start, in 1/10000 of the uncompressed text
    /// length (relative, so that the cut survives shrinking of the records)
    pub cuts: Vec<usize>,
    /// move every cut to the nearest record start at or before it
    pub snap: bool,
    /// append an empty member (what bgzip writes as its end-of-file marker)
    #[serde(default)]
    pub empty_tail: bool,
    /// 0 = stored blocks, 1..9 = deflate level
    pub level: u32,
}

#[derive(Clone, Debug, Serialize, Deserialize, PartialEq)]
pub struct Container {
    pub format: Format,
    /// 0 = all bases on one line, otherwise the wrap width
    pub wrap: usize,
    pub crlf: bool,
    pub final_newline: bool,
    pub gz: Option<Gz>,
    /// file name suffix without .gz, e.g. ".fa"
    pub suffix: String,
}

impl Container {
    pub fn plain_fasta() -> Self {
        Container {
            format: Format::Fasta,
            wrap: 0,
            crlf: false,
            final_newline: true,
            gz: None,
            suffix: ".fa".into(),
        }
    }
    pub fn file_name(&self, stem: &str) -> String {
        format!(
            "{}{}{}",
            stem,
            self.suffix,
            if self.gz.is_some() { ".gz" } else { "" }
        )
    }
    pub fn describe(&self) -> String {
        format!(
            "{:?}{}{}{}{}",
            self.format,
            if self.wrap > 0 { format!("/wrap{}", self.wrap) } else { String::new() },
            if self.crlf { "/crlf" } else { "" },
            if self.final_newline { "" } else { "/nofinalnl" },
            match &self.gz {
                Some(g) => format!("/gz<={}m-l{}", g.cuts.len() + 1, g.level),
                None => String::new(),
            }
        )
    }
}

#[derive(Clone, Debug, Serialize, Deserialize, PartialEq)]
pub struct IoSpec {
    pub enabled: bool,
    pub seed: u64,
    /// "" = per-stream choice
    pub mode: String,
    pub eintr_permille: u32,
}

impl IoSpec {
    pub fn off() -> Self {
        IoSpec {
            enabled: false,
            seed: 0,
            mode: String::new(),
            eintr_permille: 0,
        }
    }
    pub fn plan(&self) -> IoPlan {
        IoPlan {
            enabled: self.enabled,
            seed: self.seed,
            mode: Mode::from_name(&self.mode),
            eintr_permille: self.eintr_permille,
        }
    }
}

#[derive(Clone, Debug, Serialize, Deserialize, PartialEq)]
pub struct Sched {
    pub kind: String,
    pub seed: u64,
    pub a: u64,
    pub b: u64,
    /// recorded decisions (run-length encoded: [task, count, task, count, ...]);
    /// present in replay files, followed exactly when `kind == "replay"`
    #[serde(default)]
    pub decisions_rle: Vec<u32>,
}

impl Sched {
    pub fn fifo() -> Self {
        Sched {
            kind: "fifo".into(),
            seed: 0,
            a: 0,
            b: 0,
            decisions_rle: vec![],
        }
    }
    pub fn spec(&self) -> SchedSpec {
        match self.kind.as_str() {
            "fifo" => SchedSpec::Fifo,
            "random" => SchedSpec::Random { seed: self.seed },
            "sticky" => SchedSpec::Sticky {
                seed: self.seed,
                stay: self.a as u8,
            },
            "pct" => SchedSpec::Pct {
                seed: self.seed,
                depth: self.a as u32,
                est_steps: self.b,
            },
            "stall" => SchedSpec::Stall {
                seed: self.seed,
                window: self.a as u32,
            },
            "starve" => SchedSpec::Starve {
                seed: self.seed,
                est_steps: self.b,
                victims: self.a as u8,
            },
            "replay" => SchedSpec::Replay {
                decisions: rle_decode(&self.decisions_rle),
            },
            other => panic!("unknown scheduler kind {other}"),
        }
    }
    /// Draw a scheduler for a run.  `est_steps` is a rough guess of the number
    /// of scheduling decisions, used to place PCT change points.
    pub fn draw(rng: &mut Rng, est_steps: u64) -> Self {
        let seed = rng.next_u64();
        // KMSIM_SCHED_ONLY=random|sticky|pct|stall restricts the draw to one
        // kind (used to measure what each scheduler contributes)
        let forced = match std::env::var("KMSIM_SCHED_ONLY").ok().as_deref() {
            Some("random") => Some(0),
            Some("sticky") => Some(1),
            Some("pct") => Some(2),
            Some("stall") => Some(3),
            Some("starve") => Some(4),
            _ => None,
        };
        // long runs (thousands of scheduling decisions) get the stall scheduler more often:
        // "one worker falls far behind" needs room to happen
        // ... and, longer still, the starve scheduler: one worker stopped in the middle of a
        // record while the others get as far ahead as the input allows (reorder buffers,
        // turn counters and windows overflow only then)
        let drawn = if est_steps >= 100_000 {
            rng.weighted(&[12, 8, 12, 18, 50])
        } else if est_steps >= 3000 {
            rng.weighted(&[25, 15, 20, 25, 15])
        } else {
            rng.weighted(&[33, 19, 23, 19, 6])
        };
        match forced.unwrap_or(drawn) {
            0 => Sched {
                kind: "random".into(),
                seed,
                a: 0,
                b: 0,
                decisions_rle: vec![],
            },
            1 => Sched {
                kind: "sticky".into(),
                seed,
                a: rng.range(8, 15),
                b: 0,
                decisions_rle: vec![],
            },
            2 => Sched {
                kind: "pct".into(),
                seed,
                a: rng.range(1, 5),
                b: est_steps.max(4),
                decisions_rle: vec![],
            },
            4 => Sched {
                kind: "starve".into(),
                seed,
                // a = number of victims + 16 when the second victim is taken shortly after
                // the first (two workers stopped on neighbouring records)
                a: match rng.below(10) {
                    0..=4 => 1,
                    5..=7 => 2 + 16,
                    _ => 2,
                },
                b: est_steps.max(16),
                decisions_rle: vec![],
            },
            _ => Sched {
                kind: "stall".into(),
                seed,
                // window of a stall in scheduling steps: short ones half of the time; else
                // log-uniform up to 4 x the estimated length of the run -- a worker that
                // sleeps through (nearly) all the work the others do
                a: if rng.chance(1, 2) {
                    rng.range(4, 120)
                } else {
                    let hi = ((est_steps.max(16) * 4) as f64).min(4.0e9);
                    let u = (rng.next_u64() >> 11) as f64 / (1u64 << 53) as f64;
                    (hi.powf(u) as u64).clamp(4, u32::MAX as u64 / 4)
                },
                b: 0,
                decisions_rle: vec![],
            },
        }
    }
}

pub fn rle_encode(d: &[u32]) -> Vec<u32> {
    let mut out = Vec::new();
    let mut i = 0;
    while i < d.len() {
        let mut j = i;
        while j < d.len() && d[j] == d[i] {
            j += 1;
        }
        out.push(d[i]);
        out.push((j - i) as u32);
        i = j;
    }
    out
}

pub fn rle_decode(r: &[u32]) -> Vec<u32> {
    let mut out = Vec::new();
    for p in r.chunks(2) {
        if p.len() == 2 {
            for _ in 0..p[1] {
                out.push(p[0]);
            }
        }
    }
    out
}

pub type Params = BTreeMap<String, serde_json::Value>;

#[derive(Clone, Debug, Serialize, Deserialize, PartialEq)]
pub struct Case {
    pub prop: String,
    pub tier: String,
    pub verif_seed: u64,
    pub index: u64,
    pub run_seed: u64,
    pub records: Vec<Rec>,
    pub container: Container,
    pub io: IoSpec,
    pub sched: Sched,
    pub params: Params,
    /// further inputs / earlier runs of a history (engine specific)
    #[serde(default)]
    pub extra: Vec<SubRun>,
}

/// One more run belonging to the same case (C17 histories, alternative
/// counting input of C08, ...).
#[derive(Clone, Debug, Serialize, Deserialize, PartialEq)]
pub struct SubRun {
    pub records: Vec<Rec>,
    pub container: Container,
    pub sched: Sched,
    pub params: Params,
}

impl Case {
    pub fn p_u64(&self, k: &str) -> u64 {
        pu64(&self.params, k)
    }
    pub fn p_usize(&self, k: &str) -> usize {
        pu64(&self.params, k) as usize
    }
    pub fn p_bool(&self, k: &str) -> bool {
        pbool(&self.params, k)
    }
    pub fn p_str(&self, k: &str) -> String {
        pstr(&self.params, k)
    }
    pub fn p_f64(&self, k: &str) -> f64 {
        pf64(&self.params, k)
    }
    pub fn workload_hash(&self) -> u64 {
        let mut c = self.clone();
        c.sched = Sched::fifo();
        for e in c.extra.iter_mut() {
            e.sched = Sched::fifo();
        }
        c.index = 0;
        c.run_seed = 0;
        c.verif_seed = 0;
        verif_rt::rng::hash_str(&serde_json::to_string(&c).unwrap())
    }
}

pub fn pu64(p: &Params, k: &str) -> u64 {
    p.get(k)
        .and_then(|v| v.as_u64())
        .unwrap_or_else(|| panic!("missing integer param {k}"))
}
pub fn pbool(p: &Params, k: &str) -> bool {
    p.get(k)
        .and_then(|v| v.as_bool())
        .unwrap_or_else(|| panic!("missing bool param {k}"))
}
pub fn pstr(p: &Params, k: &str) -> String {
    p.get(k)
        .and_then(|v| v.as_str())
        .unwrap_or_else(|| panic!("missing string param {k}"))
        .to_string()
}
pub fn pf64(p: &Params, k: &str) -> f64 {
    p.get(k)
        .and_then(|v| v.as_f64())
        .unwrap_or_else(|| panic!("missing float param {k}"))
}

#[macro_export]
macro_rules! params {
    ($($k:expr => $v:expr),* $(,)?) => {{
        let mut m: $crate::common::Params = std::collections::BTreeMap::new();
        $( m.insert($k.to_string(), serde_json::json!($v)); )*
        m
    }};
}

// ------------------------------------------------------------ serialisation

/// Text of the records in the container's (uncompressed) format, plus the
/// offsets at which each record starts.
pub fn render_text(records: &[Rec], c: &Container) -> (Vec<u8>, Vec<usize>) {
    let nl: &[u8] = if c.crlf { b"\r\n" } else { b"\n" };
    let mut out = Vec::new();
    let mut starts = Vec::new();
    for r in records {
        starts.push(out.len());
        let header = if r.desc.is_empty() {
            r.id.clone()
        } else if r.desc.starts_with('\t') {
            // description separated by a TAB
            format!("{}{}", r.id, r.desc)
        } else {
            format!("{} {}", r.id, r.desc)
        };
        match c.format {
            Format::Fasta => {
                out.push(b'>');
                out.extend_from_slice(header.as_bytes());
                out.extend_from_slice(nl);
                let s = r.seq.as_bytes();
                if c.wrap == 0 {
                    if !s.is_empty() {
                        out.extend_from_slice(s);
                        out.extend_from_slice(nl);
                    }
                } else {
                    for chunk in s.chunks(c.wrap) {
                        out.extend_from_slice(chunk);
                        out.extend_from_slice(nl);
                    }
                }
            }
            Format::Fastq => {
                out.push(b'@');
                out.extend_from_slice(header.as_bytes());
                out.extend_from_slice(nl);
                // deterministic quality string of the same length; may start
                // with '@' or '+', which a 4-line parser must cope with
                let h = verif_rt::rng::hash_str(&r.id);
                let qual: Vec<u8> = (0..r.seq.len()).map(|i| (33 + ((h >> (i % 48)) as usize + i * 7) % 94) as u8).collect();
                if c.wrap == 0 || r.seq.is_empty() {
                    out.extend_from_slice(r.seq.as_bytes());
                    out.extend_from_slice(nl);
                    out.push(b'+');
                    out.extend_from_slice(nl);
                    out.extend_from_slice(&qual);
                    out.extend_from_slice(nl);
                } else {
                    // multi-line FASTQ: bases and qualities wrapped to the same width (the
                    // reader takes as many quality lines as it saw sequence lines)
                    for chunk in r.seq.as_bytes().chunks(c.wrap) {
                        out.extend_from_slice(chunk);
                        out.extend_from_slice(nl);
                    }
                    out.push(b'+');
                    out.extend_from_slice(nl);
                    for chunk in qual.chunks(c.wrap) {
                        out.extend_from_slice(chunk);
                        out.extend_from_slice(nl);
                    }
                }
            }
        }
    }
    if !c.final_newline && out.ends_with(nl) && !records.is_empty() {
        // a FASTQ/FASTA file whose last line has no terminator
        let keep = out.len() - nl.len();
        out.truncate(keep);
    }
    (out, starts)
}

pub fn render_bytes(records: &[Rec], c: &Container) -> Vec<u8> {
    let (text, starts) = render_text(records, c);
    match &c.gz {
        None => text,
        Some(gz) => {
            let mut cuts: Vec<usize> = gz
                .cuts
                .iter()
                .map(|&pm| text.len() * pm.min(10000) / 10000)
                .map(|x| {
                    if gz.snap {
                        starts.iter().copied().filter(|&s| s <= x).max().unwrap_or(0)
                    } else {
                        x
                    }
                })
                .filter(|&x| x > 0 && x < text.len())
                .collect();
            cuts.sort_unstable();
            cuts.dedup();
            let mut out = Vec::new();
            let mut prev = 0usize;
            for &cut in cuts.iter().chain(std::iter::once(&text.len())) {
                let mut enc =
                    flate2::write::GzEncoder::new(Vec::new(), flate2::Compression::new(gz.level));
                enc.write_all(&text[prev..cut]).unwrap();
                out.extend_from_slice(&enc.finish().unwrap());
                prev = cut;
            }
            if gz.empty_tail {
                let enc = flate2::write::GzEncoder::new(Vec::new(), flate2::Compression::new(gz.level));
                out.extend_from_slice(&enc.finish().unwrap());
            }
            out
        }
    }
}

/// Number of gzip members in a file (counted by decoding member after member).
pub fn gzip_members(path: &str) -> usize {
    use std::io::Read;
    let data = match std::fs::read(path) {
        Ok(d) => d,
        Err(_) => return 0,
    };
    let mut rest: &[u8] = &data;
    let mut n = 0;
    while !rest.is_empty() {
        let mut d = flate2::bufread::GzDecoder::new(rest);
        let mut sink = Vec::new();
        if d.read_to_end(&mut sink).is_err() {
            break;
        }
        n += 1;
        rest = d.into_inner();
    }
    n
}

// ------------------------------------------------------------------ sandbox

pub struct Sandbox {
    pub root: PathBuf,
}

impl Sandbox {
    pub fn new() -> Self {
        let base = if Path::new("/dev/shm").is_dir() {
            PathBuf::from("/dev/shm")
        } else {
            std::env::temp_dir()
        };
        let root = base.join(format!("kmsim.{}", std::process::id()));
        let _ = std::fs::remove_dir_all(&root);
        std::fs::create_dir_all(&root).expect("create sandbox");
        Sandbox { root }
    }
    /// fresh, empty directory for one run
    pub fn fresh(&self, name: &str) -> PathBuf {
        let d = self.root.join(name);
        let _ = std::fs::remove_dir_all(&d);
        std::fs::create_dir_all(&d).expect("create run dir");
        d
    }
    pub fn clear(&self) {
        if let Ok(rd) = std::fs::read_dir(&self.root) {
            for e in rd.flatten() {
                let p = e.path();
                if p.is_dir() {
                    let _ = std::fs::remove_dir_all(&p);
                } else {
                    let _ = std::fs::remove_file(&p);
                }
            }
        }
    }
}

impl Drop for Sandbox {
    fn drop(&mut self) {
        let _ = std::fs::remove_dir_all(&self.root);
    }
}

pub fn path_str(p: &Path) -> String {
    p.to_str().unwrap().to_string()
}

/// Sorted directory listing (names only).
pub fn list_dir(p: &Path) -> Vec<String> {
    let mut v: Vec<String> = std::fs::read_dir(p)
        .map(|rd| {
            rd.flatten()
                .map(|e| e.file_name().to_string_lossy().to_string())
                .collect()
        })
        .unwrap_or_default();
    v.sort();
    v
}

pub fn clip(s: &str, n: usize) -> String {
    if s.len() <= n {
        s.to_string()
    } else {
        let mut end = n;
        while !s.is_char_boundary(end) {
            end -= 1;
        }
        format!("{}...[{} bytes]", &s[..end], s.len())
    }
}
