//! Minimisation of a failing case: delta-debugging over the workload, then a
//! search for a simpler schedule, keeping a candidate only if the SAME oracle
//! clause still fails.

use crate::common::*;
use crate::exec::*;
use verif_rt::rng::Rng;

pub fn generic_shrinks(case: &Case) -> Vec<Case> {
    let mut out = Vec::new();
    let n = case.records.len();
    // fewer records
    if n > 1 {
        let mut c = case.clone();
        c.records.truncate(n / 2);
        out.push(c);
        let mut c = case.clone();
        c.records.drain(0..n / 2);
        out.push(c);
    }
    if n > 0 && n <= 16 {
        for i in 0..n {
            let mut c = case.clone();
            c.records.remove(i);
            out.push(c);
        }
    }
    // plainer delivery and container
    if case.io.enabled {
        let mut c = case.clone();
        c.io = IoSpec::off();
        out.push(c);
        if case.io.eintr_permille > 0 {
            let mut c = case.clone();
            c.io.eintr_permille = 0;
            out.push(c);
        }
    }
    if let Some(g) = &case.container.gz {
        let mut c = case.clone();
        c.container.gz = None;
        out.push(c);
        if g.empty_tail {
            let mut c = case.clone();
            c.container.gz.as_mut().unwrap().empty_tail = false;
            out.push(c);
        }
        if g.cuts.len() > 1 {
            for i in 0..g.cuts.len() {
                let mut c = case.clone();
                c.container.gz.as_mut().unwrap().cuts.remove(i);
                out.push(c);
            }
        }
    }
    if case.container.crlf {
        let mut c = case.clone();
        c.container.crlf = false;
        out.push(c);
    }
    if !case.container.final_newline {
        let mut c = case.clone();
        c.container.final_newline = true;
        out.push(c);
    }
    if case.container.wrap != 0 {
        let mut c = case.clone();
        c.container.wrap = 0;
        out.push(c);
    }
    if case.container.format == Format::Fastq {
        let mut c = case.clone();
        c.container.format = Format::Fasta;
        c.container.suffix = ".fa".into();
        out.push(c);
    }
    // shorter sequences and plainer headers
    if n <= 24 {
        for i in 0..n {
            let l = case.records[i].seq.len();
            if l > 1 {
                let mut c = case.clone();
                c.records[i].seq.truncate(l / 2);
                out.push(c);
                let mut c = case.clone();
                c.records[i].seq = case.records[i].seq[l / 2..].to_string();
                out.push(c);
            }
            if l > 0 && l <= 12 {
                let mut c = case.clone();
                c.records[i].seq.pop();
                out.push(c);
            }
            if !case.records[i].desc.is_empty() {
                let mut c = case.clone();
                c.records[i].desc.clear();
                out.push(c);
            }
        }
    }
    // smaller numeric knobs
    for key in ["threads", "workers"] {
        if let Some(v) = case.params.get(key).and_then(|v| v.as_u64()) {
            for cand in [1u64, 2, v / 2] {
                if cand >= 1 && cand < v && (key != "workers" || cand != 1) {
                    let mut c = case.clone();
                    c.params.insert(key.to_string(), serde_json::json!(cand));
                    out.push(c);
                }
            }
            if key == "workers" && v > 0 {
                let mut c = case.clone();
                c.params.insert(key.to_string(), serde_json::json!(0));
                out.push(c);
            }
        }
    }
    // earlier runs of a history
    if !case.extra.is_empty() {
        for i in 0..case.extra.len() {
            let mut c = case.clone();
            c.extra.remove(i);
            out.push(c);
        }
    }
    out
}

fn sched_variants(case: &Case, rng: &mut Rng, k: usize) -> Vec<Sched> {
    let mut v = vec![case.sched.clone(), Sched::fifo()];
    for d in 1..=3u64 {
        v.push(Sched {
            kind: "pct".into(),
            seed: rng.next_u64(),
            a: d,
            b: case.sched.b.max(16),
            decisions_rle: vec![],
        });
    }
    for _ in 0..k {
        v.push(Sched::draw(rng, case.sched.b.max(16)));
    }
    v
}

pub struct Minimised {
    pub case: Case,
    pub violation: Violation,
    pub tried: u64,
    pub accepted: u64,
    pub context_switches: u64,
}

/// `failing` must fail with `violation`.  Returns a (possibly) smaller case that
/// fails with the same clause, its schedule recorded as a decision list.
pub fn minimise(engine: &dyn Engine, failing: &Case, violation: &Violation, sb: &Sandbox, budget: u64) -> Minimised {
    let mut rng = Rng::new(failing.run_seed ^ 0x4d49_4e49);
    let mut best = failing.clone();
    let mut best_v = violation.clone();
    let mut tried = 0u64;
    let mut accepted = 0u64;
    let start = std::time::Instant::now();
    let within = |tried: u64| tried < budget && start.elapsed().as_secs() < 90;
    // 1. workload
    let mut progress = true;
    while progress && within(tried) {
        progress = false;
        for cand in engine.shrink(&best) {
            if !within(tried) {
                break;
            }
            let mut hit = None;
            for s in sched_variants(&cand, &mut rng, 4) {
                let mut c = cand.clone();
                c.sched = s;
                tried += 1;
                let o = run_case(engine, &c, sb);
                if let Some(v) = o.violation {
                    if v.clause == best_v.clause {
                        hit = Some((c, v));
                        break;
                    }
                }
                if !within(tried) {
                    break;
                }
            }
            if let Some((c, v)) = hit {
                best = c;
                best_v = v;
                accepted += 1;
                progress = true;
                break;
            }
        }
    }
    // 2. schedule: fewest context switches among a handful of simple schedulers
    let mut best_cs = {
        let o = run_case(engine, &best, sb);
        o.log.context_switches
    };
    let mut variants = vec![Sched::fifo()];
    for d in 1..=3u64 {
        for _ in 0..6 {
            variants.push(Sched {
                kind: "pct".into(),
                seed: rng.next_u64(),
                a: d,
                b: best.sched.b.max(16),
                decisions_rle: vec![],
            });
        }
    }
    for s in variants {
        if !within(tried) {
            break;
        }
        let mut c = best.clone();
        c.sched = s;
        tried += 1;
        let o = run_case(engine, &c, sb);
        if let Some(v) = &o.violation {
            if v.clause == best_v.clause && o.log.context_switches < best_cs {
                best_cs = o.log.context_switches;
                best = c;
                best_v = v.clone();
                accepted += 1;
            }
        }
    }
    // 3. freeze the schedule as an explicit decision list
    let o = run_case(engine, &best, sb);
    if let Some(v) = &o.violation {
        if v.clause == best_v.clause {
            let mut frozen = best.clone();
            frozen.params.insert(
                "sched_origin".into(),
                serde_json::json!(format!("{}:{}:{}:{}", best.sched.kind, best.sched.seed, best.sched.a, best.sched.b)),
            );
            frozen.sched = Sched {
                kind: "replay".into(),
                // kept: the stand-ins' own choices (fold splits) derive from it
                seed: best.sched.seed,
                a: 0,
                b: best.sched.b,
                decisions_rle: rle_encode(&o.log.decisions),
            };
            let o2 = run_case(engine, &frozen, sb);
            if let Some(v2) = o2.violation {
                if v2.clause == best_v.clause && !o2.log.diverged {
                    best = frozen;
                    best_v = v2;
                    best_cs = o2.log.context_switches;
                }
            }
        }
    }
    Minimised {
        case: best,
        violation: best_v,
        tried,
        accepted,
        context_switches: best_cs,
    }
}
