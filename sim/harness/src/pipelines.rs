//! Thin wrappers that run one kmertools pipeline inside a simulated execution.

use crate::common::*;
use crate::exec::*;
use std::path::Path;
use verif_rt::sched::ExecResult;

#[derive(Clone, Debug)]
pub struct OligoCfg {
    pub k: usize,
    pub threads: usize,
    pub memory: usize,
    pub norm: bool,
    pub header: bool,
    pub delim: String,
    /// feed the input through the simulated standard input ("-")
    pub stdin: bool,
    /// 0 = setters called in the order threads, norm, delim, memory, header;
    /// otherwise the seed of a permutation of that order (the result must not
    /// depend on the order in which independent settings are made)
    pub order: u64,
}

impl OligoCfg {
    pub fn from_params(p: &Params) -> Self {
        OligoCfg {
            k: pu64(p, "k") as usize,
            threads: pu64(p, "threads") as usize,
            memory: pu64(p, "memory") as usize,
            norm: pbool(p, "norm"),
            header: pbool(p, "header"),
            delim: pstr(p, "delim"),
            stdin: pbool(p, "stdin"),
            order: p.get("order").and_then(|v| v.as_u64()).unwrap_or(0),
        }
    }
    pub fn uses_mmap(&self) -> bool {
        self.norm && !self.stdin
    }
}

/// Order in which `n` independent setters are called: identity for seed 0,
/// otherwise a seeded permutation.
pub fn setter_order(n: usize, seed: u64) -> Vec<usize> {
    let mut v: Vec<usize> = (0..n).collect();
    if seed != 0 {
        verif_rt::rng::Rng::new(seed).shuffle(&mut v);
    }
    v
}

pub struct RunOut {
    /// Ok(Ok(())) = returned Ok; Ok(Err(s)) = returned Err(s); Err(p) = panicked
    pub status: Result<Result<(), String>, String>,
    pub exec_error: Option<String>,
    pub output: Option<Vec<u8>>,
}

fn finish<T>(r: &ExecResult<Result<Result<(), String>, String>>, out_path: &Path, _t: T) -> RunOut {
    let (status, exec_error) = match &r.value {
        Err(e) => (Err(String::new()), Some(e.clone())),
        Ok(Err(p)) => (Err(p.clone()), None),
        Ok(Ok(v)) => (Ok(v.clone()), None),
    };
    RunOut {
        status,
        exec_error,
        output: std::fs::read(out_path).ok(),
    }
}

pub fn run_oligo(
    dir: &Path,
    stem: &str,
    records: &[Rec],
    container: &Container,
    cfg: &OligoCfg,
    sched: &Sched,
    io: &IoSpec,
    abort_at: Option<u64>,
    steps: usize,
    out_path: &Path,
) -> (ExecResult<Result<Result<(), String>, String>>, RunOut) {
    let (in_path, stdin) = if cfg.stdin {
        ("-".to_string(), Some(render_bytes(records, container)))
    } else {
        (write_input(dir, stem, records, container), None)
    };
    let out_s = path_str(out_path);
    let c = cfg.clone();
    let r = sim(sched, io, stdin, abort_at, 4, steps, move || {
        let mut com = composition::oligo::OligoComputer::new(in_path, out_s, c.k);
        for i in setter_order(5, c.order) {
            match i {
                0 => com.set_threads(c.threads),
                1 => com.set_norm(c.norm),
                2 => com.set_delim(c.delim.clone()),
                3 => com.set_max_memory(c.memory),
                _ => com.set_header(c.header),
            }
        }
        com.vectorise()
    });
    let ro = finish(&r, out_path, ());
    (r, ro)
}

/// Rows the system itself produces for each sequence alone (singleton input,
/// one thread, batch writer, no header) -- the sequential specification used
/// by the order/independence oracles.  One simulated execution for all of them.
pub fn singleton_rows(
    dir: &Path,
    seqs: &[String],
    k: usize,
    norm: bool,
    delim: &str,
    out: &mut Outcome,
) -> Result<Vec<Vec<u8>>, String> {
    let n = seqs.len();
    let inputs: Vec<Vec<u8>> = seqs
        .iter()
        .map(|s| {
            render_bytes(
                &[Rec {
                    id: "x".into(),
                    desc: String::new(),
                    seq: s.clone(),
                }],
                &Container::plain_fasta(),
            )
        })
        .collect();
    let outs: Vec<String> = (0..n).map(|i| path_str(&dir.join(format!("single_{i}.out")))).collect();
    let outs2 = outs.clone();
    let delim = delim.to_string();
    // the reference run is sequential; its budget only has to be generous
    let budget = STEPS_THOROUGH + 2_000 * n + 16 * inputs.iter().map(|b| b.len()).sum::<usize>();
    let r = sim(&Sched::fifo(), &IoSpec::off(), None, None, 1, budget, move || {
        for (i, bytes) in inputs.into_iter().enumerate() {
            verif_rt::ctx::with(|c| c.stdin = Some(bytes));
            let mut com = composition::oligo::OligoComputer::new("-".into(), outs2[i].clone(), k);
            com.set_threads(1);
            com.set_norm(norm);
            com.set_delim(delim.clone());
            com.set_header(false);
            com.vectorise()?;
        }
        Ok::<(), String>(())
    });
    out.absorb(&r, false);
    match &r.value {
        Err(e) => return Err(format!("singleton reference execution failed: {e}")),
        Ok(Err(p)) => return Err(format!("singleton reference run panicked: {p}")),
        Ok(Ok(Err(e))) => return Err(format!("singleton reference run returned an error: {e}")),
        Ok(Ok(Ok(()))) => {}
    }
    let mut rows = Vec::with_capacity(n);
    for o in outs {
        let b = std::fs::read(&o).map_err(|e| format!("singleton output missing: {e}"))?;
        rows.push(b);
    }
    Ok(rows)
}

// ------------------------------------------------------------------ counter

#[derive(Clone, Debug)]
pub struct CountCfg {
    pub k: usize,
    pub threads: usize,
    /// memory ceiling in GB (the public setter's unit); the per-chunk limit is
    /// 1e9 * gb / 8 bases
    pub gb: f64,
    pub acgt: bool,
    pub delete: bool,
    pub order: u64,
}

impl CountCfg {
    pub fn from_params(p: &Params) -> Self {
        CountCfg {
            k: pu64(p, "k") as usize,
            threads: pu64(p, "threads") as usize,
            gb: pf64(p, "gb"),
            acgt: pbool(p, "acgt"),
            delete: pbool(p, "delete"),
            order: p.get("order").and_then(|v| v.as_u64()).unwrap_or(0),
        }
    }
    /// ceiling (GB) that makes the per-chunk limit exactly `limit` bases
    pub fn gb_for_limit(limit: u64) -> f64 {
        // limit = floor(1e9 * gb / 8); the half keeps the float away from the edge
        (limit as f64 + 0.5) * 8.0 / 1e9
    }
    pub fn limit(&self) -> u64 {
        (1_000_000_000_f64 * self.gb / 8.0) as u64
    }
    /// number of partitions the run will use (mirrors the documented sizing rule:
    /// at least one per thread, more when the data exceeds twice the ceiling)
    pub fn expected_parts(&self, total_bases: usize) -> u64 {
        let data_gb = total_bases as f64 / (1u64 << 30) as f64;
        std::cmp::max(self.threads as u64, (8.0 * data_gb / (2.0 * self.gb)).ceil() as u64)
    }
}

pub fn run_counter(
    in_path: &str,
    out_dir: &Path,
    cfg: &CountCfg,
    sched: &Sched,
    io: &IoSpec,
    abort_at: Option<u64>,
    steps: usize,
) -> ExecResult<Result<(), String>> {
    let in_path = in_path.to_string();
    let out_s = path_str(out_dir);
    let c = cfg.clone();
    sim(sched, io, None, abort_at, 4, steps, move || {
        let mut ctr = counter::CountComputer::new(in_path, out_s, c.k);
        for i in setter_order(3, c.order) {
            match i {
                0 => ctr.set_threads(c.threads),
                1 => ctr.set_max_memory(c.gb),
                _ => ctr.set_acgt_output(c.acgt),
            }
        }
        ctr.count();
        ctr.merge(c.delete);
    })
}

/// Parse a counts table ("key<TAB>count" per line) into (key text, count) pairs.
pub fn parse_counts(bytes: &[u8]) -> Result<Vec<(String, u64)>, String> {
    let text = std::str::from_utf8(bytes).map_err(|_| "counts file is not UTF-8".to_string())?;
    let mut v = Vec::new();
    if !text.is_empty() && !text.ends_with('\n') {
        return Err("counts file does not end with a newline".into());
    }
    for (i, line) in text.lines().enumerate() {
        let mut it = line.split('\t');
        let k = it.next().ok_or_else(|| format!("line {i}: no key"))?;
        let c = it
            .next()
            .ok_or_else(|| format!("line {i}: no count: {line:?}"))?
            .parse::<u64>()
            .map_err(|_| format!("line {i}: bad count: {line:?}"))?;
        if it.next().is_some() || k.is_empty() {
            return Err(format!("line {i}: malformed: {line:?}"));
        }
        v.push((k.to_string(), c));
    }
    Ok(v)
}

// ----------------------------------------------------------------- coverage

#[derive(Clone, Debug)]
pub struct CovCfg {
    pub k: usize,
    pub threads: usize,
    pub gb: f64,
    pub norm: bool,
    pub delim: String,
    pub bin_size: usize,
    pub bin_count: usize,
    pub order: u64,
}

impl CovCfg {
    pub fn from_params(p: &Params) -> Self {
        CovCfg {
            k: pu64(p, "k") as usize,
            threads: pu64(p, "threads") as usize,
            gb: pf64(p, "gb"),
            norm: pbool(p, "norm"),
            delim: pstr(p, "delim"),
            bin_size: pu64(p, "bin_size") as usize,
            bin_count: pu64(p, "bin_count") as usize,
            order: p.get("order").and_then(|v| v.as_u64()).unwrap_or(0),
        }
    }
}

pub fn run_cov(
    in_path: &str,
    alt_path: Option<&str>,
    out_dir: &Path,
    cfg: &CovCfg,
    sched: &Sched,
    io: &IoSpec,
    abort_at: Option<u64>,
    steps: usize,
) -> ExecResult<Result<Result<(), String>, String>> {
    let in_path = in_path.to_string();
    let alt = alt_path.map(|s| s.to_string());
    let out_s = path_str(out_dir);
    let c = cfg.clone();
    sim(sched, io, None, abort_at, 4, steps, move || {
        let mut cov = coverage::CovComputer::new(in_path, out_s, c.k, c.bin_size, c.bin_count);
        let mut alt = alt;
        for i in setter_order(5, c.order) {
            match i {
                0 => cov.set_threads(c.threads),
                1 => cov.set_norm(c.norm),
                2 => cov.set_delim(c.delim.clone()),
                3 => cov.set_max_memory(c.gb),
                _ => {
                    if let Some(a) = alt.take() {
                        cov.set_kmer_path(a);
                    }
                }
            }
        }
        cov.build_table()?;
        cov.compute_coverages();
        Ok(())
    })
}

// --------------------------------------------------------------- minimisers

#[derive(Clone, Debug)]
pub struct MinCfg {
    pub w: usize,
    pub m: usize,
    pub threads: usize,
    /// "s2m" or "m2s"
    pub preset: String,
}

impl MinCfg {
    pub fn from_params(p: &Params) -> Self {
        MinCfg {
            w: pu64(p, "w") as usize,
            m: pu64(p, "m") as usize,
            threads: pu64(p, "threads") as usize,
            preset: pstr(p, "preset"),
        }
    }
}

/// "Stored state" fault for the counter's directory: chunk files and possibly a table left
/// by an earlier, interrupted count (`seed` 0 = a clean directory).
pub fn stale_counter_files(out_dir: &Path, seed: u64, parts: u64, k: usize, real: &[u64]) -> bool {
    if seed == 0 {
        return false;
    }
    let mut r = verif_rt::rng::Rng::new(seed);
    for _ in 0..r.usize(1, 12) {
        let p = r.range(0, parts);
        let c = r.range(0, 6);
        let mut body = String::new();
        for _ in 0..r.usize(0, 5) {
            // half of the stale lines are about k-mers the run at hand really deals with
            let code = if !real.is_empty() && r.chance(1, 2) {
                real[r.below(real.len() as u64) as usize]
            } else {
                r.below(1u64 << (2 * k.min(31)))
            };
            body.push_str(&format!("{}\t{}\n", code, r.range(1, 9)));
        }
        std::fs::write(out_dir.join(format!("temp_kmers.part_{p}_chunk_{c}")), body).expect("stale chunk file");
    }
    if r.chance(1, 2) {
        std::fs::write(out_dir.join("kmers.counts"), "1\t99\n2\t7\n").expect("stale table");
    }
    true
}

/// "Stored state" fault: before the run, put the remains of some earlier result at the
/// output path (`seed` 0 = leave it absent).  What a run writes must not depend on it.
pub fn stale_output(path: &Path, seed: u64) -> bool {
    if seed == 0 {
        return false;
    }
    let mut r = verif_rt::rng::Rng::new(seed);
    // log-uniform size, so that it is longer than the new result about as often as shorter
    let bits = r.range(0, 19);
    let len = (1usize << bits) + r.below(1u64 << bits) as usize;
    let mut body = Vec::with_capacity(len);
    let alphabet: &[u8] = b"ACGTacgt0123456789.,()\t >@+-eN";
    while body.len() < len {
        let line = r.usize(0, 200);
        for _ in 0..line {
            body.push(alphabet[r.below(alphabet.len() as u64) as usize]);
        }
        body.push(b'\n');
    }
    body.truncate(len);
    std::fs::write(path, body).expect("stale output");
    true
}

pub fn run_min(
    in_path: &str,
    out_path: &Path,
    cfg: &MinCfg,
    sched: &Sched,
    io: &IoSpec,
    abort_at: Option<u64>,
    global_threads: usize,
    steps: usize,
) -> ExecResult<Result<(), String>> {
    let in_path = in_path.to_string();
    let out_s = path_str(out_path);
    let c = cfg.clone();
    sim(sched, io, None, abort_at, global_threads, steps, move || {
        if c.preset == "m2s" {
            misc::minimisers::bin_sequences(c.w, c.m, &in_path, &out_s, c.threads);
        } else {
            misc::minimisers::seq_to_min(c.w, c.m, &in_path, &out_s, c.threads);
        }
    })
}

pub type Run = (String, usize, usize);

/// Strict parser of the sequence-to-minimiser listing: one line per record,
/// `id<TAB>MMER:start-end<TAB>...<TAB>` (every field is followed by a tab).
pub fn parse_s2m(bytes: &[u8]) -> Result<Vec<(String, Vec<Run>)>, String> {
    let text = std::str::from_utf8(bytes).map_err(|_| "not UTF-8".to_string())?;
    if !text.is_empty() && !text.ends_with('\n') {
        return Err("listing does not end with a newline".into());
    }
    let mut out = Vec::new();
    for (ln, line) in text.lines().enumerate() {
        let body = line
            .strip_suffix('\t')
            .ok_or_else(|| format!("line {ln} does not end with a tab: {:?}", clip(line, 100)))?;
        let mut it = body.split('\t');
        let id = it.next().unwrap_or("");
        if id.is_empty() {
            return Err(format!("line {ln} has no id: {:?}", clip(line, 100)));
        }
        let mut runs = Vec::new();
        for f in it {
            let (mm, range) = f
                .split_once(':')
                .ok_or_else(|| format!("line {ln}: malformed run {:?}", clip(f, 60)))?;
            let (s, e) = range
                .split_once('-')
                .ok_or_else(|| format!("line {ln}: malformed range {:?}", clip(f, 60)))?;
            if mm.is_empty() || !mm.bytes().all(|b| b"ACGT".contains(&b)) {
                return Err(format!("line {ln}: malformed minimiser text {:?}", clip(f, 60)));
            }
            let s: usize = s.parse().map_err(|_| format!("line {ln}: bad start in {:?}", clip(f, 60)))?;
            let e: usize = e.parse().map_err(|_| format!("line {ln}: bad end in {:?}", clip(f, 60)))?;
            runs.push((mm.to_string(), s, e));
        }
        out.push((id.to_string(), runs));
    }
    Ok(out)
}

/// Strict parser of the minimiser-to-sequence listing:
/// `MMER<TAB>[("id", start, end), ...]` per line.
pub fn parse_m2s(bytes: &[u8]) -> Result<Vec<(String, Vec<Run>)>, String> {
    let text = std::str::from_utf8(bytes).map_err(|_| "not UTF-8".to_string())?;
    if !text.is_empty() && !text.ends_with('\n') {
        return Err("listing does not end with a newline".into());
    }
    let mut out = Vec::new();
    for (ln, line) in text.lines().enumerate() {
        let (mm, rest) = line
            .split_once('\t')
            .ok_or_else(|| format!("line {ln}: no tab: {:?}", clip(line, 100)))?;
        if mm.is_empty() || !mm.bytes().all(|b| b"ACGT".contains(&b)) {
            return Err(format!("line {ln}: malformed minimiser text {:?}", clip(mm, 60)));
        }
        let inner = rest
            .strip_prefix('[')
            .and_then(|r| r.strip_suffix(']'))
            .ok_or_else(|| format!("line {ln}: list not bracketed: {:?}", clip(rest, 100)))?;
        let mut entries = Vec::new();
        if !inner.is_empty() {
            for e in inner.split("), (") {
                let e = e.trim_start_matches('(').trim_end_matches(')');
                let mut parts = e.rsplitn(3, ", ");
                let end = parts.next().ok_or_else(|| format!("line {ln}: bad entry {:?}", e))?;
                let start = parts.next().ok_or_else(|| format!("line {ln}: bad entry {:?}", e))?;
                let id = parts.next().ok_or_else(|| format!("line {ln}: bad entry {:?}", e))?;
                let id = id
                    .strip_prefix('"')
                    .and_then(|s| s.strip_suffix('"'))
                    .ok_or_else(|| format!("line {ln}: id not quoted in {:?}", e))?;
                let s: usize = start.parse().map_err(|_| format!("line {ln}: bad start in {:?}", e))?;
                let en: usize = end.parse().map_err(|_| format!("line {ln}: bad end in {:?}", e))?;
                entries.push((id.to_string(), s, en));
            }
        }
        out.push((mm.to_string(), entries));
    }
    Ok(out)
}

// ---------------------------------------------------------------------- CGR

#[derive(Clone, Debug)]
pub struct CgrCfg {
    /// 0 = whole-sequence CGR, otherwise k-mer CGR with this k
    pub k: usize,
    pub vecsize: usize,
    pub threads: usize,
    pub memory: usize,
    pub norm: bool,
    pub stdin: bool,
    pub order: u64,
}

impl CgrCfg {
    pub fn from_params(p: &Params) -> Self {
        CgrCfg {
            k: pu64(p, "k") as usize,
            vecsize: pu64(p, "vecsize") as usize,
            threads: pu64(p, "threads") as usize,
            memory: pu64(p, "memory") as usize,
            norm: pbool(p, "norm"),
            stdin: pbool(p, "stdin"),
            order: p.get("order").and_then(|v| v.as_u64()).unwrap_or(0),
        }
    }
}

pub fn run_cgr(
    dir: &Path,
    stem: &str,
    records: &[Rec],
    container: &Container,
    cfg: &CgrCfg,
    sched: &Sched,
    io: &IoSpec,
    abort_at: Option<u64>,
    steps: usize,
    out_path: &Path,
) -> (ExecResult<Result<Result<(), String>, String>>, RunOut) {
    let (in_path, stdin) = if cfg.stdin {
        ("-".to_string(), Some(render_bytes(records, container)))
    } else {
        (write_input(dir, stem, records, container), None)
    };
    let out_s = path_str(out_path);
    let c = cfg.clone();
    let r = sim(sched, io, stdin, abort_at, 4, steps, move || {
        if c.k == 0 {
            let mut com = composition::cgr::CgrComputer::new(in_path, out_s, c.vecsize);
            for i in setter_order(2, c.order) {
                match i {
                    0 => com.set_threads(c.threads),
                    _ => com.set_max_memory(c.memory),
                }
            }
            com.vectorise()
        } else {
            let mut com = composition::oligocgr::OligoCgrComputer::new(in_path, out_s, c.k, c.vecsize);
            for i in setter_order(3, c.order) {
                match i {
                    0 => com.set_threads(c.threads),
                    1 => com.set_norm(c.norm),
                    _ => com.set_max_memory(c.memory),
                }
            }
            com.vectorise()
        }
    });
    let ro = finish(&r, out_path, ());
    (r, ro)
}

/// Parse one output row of "(a,b)" or "(a,b,c)" tuples separated by blanks.
pub fn parse_tuples(line: &str, arity: usize) -> Result<Vec<Vec<f64>>, String> {
    let mut out = Vec::new();
    if line.is_empty() {
        return Ok(out);
    }
    for tok in line.split(' ') {
        let inner = tok
            .strip_prefix('(')
            .and_then(|t| t.strip_suffix(')'))
            .ok_or_else(|| format!("malformed tuple {:?}", clip(tok, 60)))?;
        let vals: Result<Vec<f64>, _> = inner.split(',').map(|v| v.parse::<f64>()).collect();
        let vals = vals.map_err(|_| format!("malformed number in {:?}", clip(tok, 60)))?;
        if vals.len() != arity {
            return Err(format!("tuple {:?} has {} components, expected {arity}", clip(tok, 60), vals.len()));
        }
        out.push(vals);
    }
    Ok(out)
}

// ---------------------------------------------------------------------- CLI

/// Outcome of running the command line in-process.
#[derive(Clone, Debug, PartialEq)]
pub enum CliEnd {
    /// the argument parser refused the command line
    ParseError(String),
    /// `cli()` returned (process exit status 0)
    Returned,
}

pub fn run_cli(
    argv: Vec<String>,
    stdin: Option<Vec<u8>>,
    sched: &Sched,
    io: &IoSpec,
    abort_at: Option<u64>,
    global_threads: usize,
    steps: usize,
) -> ExecResult<Result<CliEnd, String>> {
    sim(sched, io, stdin, abort_at, global_threads, steps, move || {
        use clap::Parser;
        match kmertools::args::Cli::try_parse_from(argv) {
            Err(e) => CliEnd::ParseError(e.kind().to_string()),
            Ok(c) => {
                kmertools::args::cli(c);
                CliEnd::Returned
            }
        }
    })
}

/// Canonical form of an unordered listing: lines sorted; for the
/// minimiser-to-sequence listing also the entries of every line (the property
/// compares those lists as multisets).
pub fn canonical_unordered(bytes: &[u8]) -> Vec<Vec<u8>> {
    if let Ok(parsed) = parse_m2s(bytes) {
        if !parsed.is_empty() {
            let mut lines: Vec<Vec<u8>> = parsed
                .into_iter()
                .map(|(mm, mut e)| {
                    e.sort();
                    format!("{mm}\t{e:?}").into_bytes()
                })
                .collect();
            lines.sort();
            return lines;
        }
    }
    let mut v: Vec<Vec<u8>> = bytes.split(|&c| c == b'\n').map(|l| l.to_vec()).collect();
    v.sort();
    v
}
