//! Thin wrappers that run one kmertools pipeline inside a simulated execution.

use crate::common::*;
use crate::exec::*;
use std::path::Path;
use verif_rt::sched::ExecResult;

#[derive(Clone, Debug)]
pub struct OligoCfg {
    pub k: usize,
    pub threads: usize,
    pub memory: usize,
    pub norm: bool,
    pub header: bool,
    pub delim: String,
    /// feed the input through the simulated standard input ("-")
    pub stdin: bool,
}

impl OligoCfg {
    pub fn from_params(p: &Params) -> Self {
        OligoCfg {
            k: pu64(p, "k") as usize,
            threads: pu64(p, "threads") as usize,
            memory: pu64(p, "memory") as usize,
            norm: pbool(p, "norm"),
            header: pbool(p, "header"),
            delim: pstr(p, "delim"),
            stdin: pbool(p, "stdin"),
        }
    }
    pub fn uses_mmap(&self) -> bool {
        self.norm && !self.stdin
    }
}

pub struct RunOut {
    /// Ok(Ok(())) = returned Ok; Ok(Err(s)) = returned Err(s); Err(p) = panicked
    pub status: Result<Result<(), String>, String>,
    pub exec_error: Option<String>,
    pub output: Option<Vec<u8>>,
}

fn finish<T>(r: &ExecResult<Result<Result<(), String>, String>>, out_path: &Path, _t: T) -> RunOut {
    let (status, exec_error) = match &r.value {
        Err(e) => (Err(String::new()), Some(e.clone())),
        Ok(Err(p)) => (Err(p.clone()), None),
        Ok(Ok(v)) => (Ok(v.clone()), None),
    };
    RunOut {
        status,
        exec_error,
        output: std::fs::read(out_path).ok(),
    }
}

pub fn run_oligo(
    dir: &Path,
    stem: &str,
    records: &[Rec],
    container: &Container,
    cfg: &OligoCfg,
    sched: &Sched,
    io: &IoSpec,
    abort_at: Option<u64>,
    steps: usize,
    out_path: &Path,
) -> (ExecResult<Result<Result<(), String>, String>>, RunOut) {
    let (in_path, stdin) = if cfg.stdin {
        ("-".to_string(), Some(render_bytes(records, container)))
    } else {
        (write_input(dir, stem, records, container), None)
    };
    let out_s = path_str(out_path);
    let c = cfg.clone();
    let r = sim(sched, io, stdin, abort_at, 4, steps, move || {
        let mut com = composition::oligo::OligoComputer::new(in_path, out_s, c.k);
        com.set_threads(c.threads);
        com.set_norm(c.norm);
        com.set_delim(c.delim.clone());
        com.set_max_memory(c.memory);
        com.set_header(c.header);
        com.vectorise()
    });
    let ro = finish(&r, out_path, ());
    (r, ro)
}

/// Rows the system itself produces for each sequence alone (singleton input,
/// one thread, batch writer, no header) -- the sequential specification used
/// by the order/independence oracles.  One simulated execution for all of them.
pub fn singleton_rows(
    dir: &Path,
    seqs: &[String],
    k: usize,
    norm: bool,
    delim: &str,
    out: &mut Outcome,
) -> Result<Vec<Vec<u8>>, String> {
    let n = seqs.len();
    let inputs: Vec<Vec<u8>> = seqs
        .iter()
        .map(|s| {
            render_bytes(
                &[Rec {
                    id: "x".into(),
                    desc: String::new(),
                    seq: s.clone(),
                }],
                &Container::plain_fasta(),
            )
        })
        .collect();
    let outs: Vec<String> = (0..n).map(|i| path_str(&dir.join(format!("single_{i}.out")))).collect();
    let outs2 = outs.clone();
    let delim = delim.to_string();
    let r = sim(&Sched::fifo(), &IoSpec::off(), None, None, 1, STEPS_THOROUGH, move || {
        for (i, bytes) in inputs.into_iter().enumerate() {
            verif_rt::ctx::with(|c| c.stdin = Some(bytes));
            let mut com = composition::oligo::OligoComputer::new("-".into(), outs2[i].clone(), k);
            com.set_threads(1);
            com.set_norm(norm);
            com.set_delim(delim.clone());
            com.set_header(false);
            com.vectorise()?;
        }
        Ok::<(), String>(())
    });
    out.absorb(&r, false);
    match &r.value {
        Err(e) => return Err(format!("singleton reference execution failed: {e}")),
        Ok(Err(p)) => return Err(format!("singleton reference run panicked: {p}")),
        Ok(Ok(Err(e))) => return Err(format!("singleton reference run returned an error: {e}")),
        Ok(Ok(Ok(()))) => {}
    }
    let mut rows = Vec::with_capacity(n);
    for o in outs {
        let b = std::fs::read(&o).map_err(|e| format!("singleton output missing: {e}"))?;
        rows.push(b);
    }
    Ok(rows)
}
