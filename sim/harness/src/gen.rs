//! Seeded workload generators shared by the engines.

use crate::common::*;
use verif_rt::rng::Rng;

#[derive(Clone, Copy, Debug, PartialEq)]
pub enum Alpha {
    /// upper-case ACGT
    Clean,
    /// ACGT in both cases and U/u
    Mixed,
    /// mostly bases with runs of N
    WithN,
    /// bases plus other printable bytes
    Dirty,
    Homopolymer,
    /// short-period repeat
    Repeat,
    AllN,
}

pub fn gen_seq(rng: &mut Rng, len: usize, alpha: Alpha) -> String {
    let mut s = String::with_capacity(len);
    match alpha {
        Alpha::Clean => {
            for _ in 0..len {
                s.push(*rng.pick(&['A', 'C', 'G', 'T']));
            }
        }
        Alpha::Mixed => {
            for _ in 0..len {
                s.push(*rng.pick(&['A', 'C', 'G', 'T', 'a', 'c', 'g', 't', 'U', 'u']));
            }
        }
        Alpha::WithN => {
            let mut i = 0;
            while i < len {
                if rng.chance(1, 12) {
                    let run = rng.usize(1, 4).min(len - i);
                    for _ in 0..run {
                        s.push('N');
                    }
                    i += run;
                } else {
                    s.push(*rng.pick(&['A', 'C', 'G', 'T']));
                    i += 1;
                }
            }
        }
        Alpha::Dirty => {
            // IUPAC codes, gaps, and any other printable byte (digits and
            // punctuation share low bits with the nucleotide letters: '4' & 0x1f
            // == 'T' & 0x1f ...); '>', '@' and '+' are left out because they are
            // structural at the start of a line
            const OTHER: &[u8] = b"NnRYKMSWBDHVXryk-.*NnNn0123456789!#$%&'()*,/:;<=?[]^_{|}~EFIJLOPQZefijlopqz";
            for _ in 0..len {
                if rng.chance(1, 8) {
                    s.push(*rng.pick(OTHER) as char);
                } else {
                    s.push(*rng.pick(&['A', 'C', 'G', 'T', 'a', 'c', 'g', 't']));
                }
            }
        }
        Alpha::Homopolymer => {
            let c = *rng.pick(&['A', 'C', 'G', 'T']);
            for _ in 0..len {
                s.push(c);
            }
        }
        Alpha::Repeat => {
            let p = rng.usize(1, 5);
            let unit: Vec<char> = (0..p).map(|_| *rng.pick(&['A', 'C', 'G', 'T'])).collect();
            for i in 0..len {
                s.push(unit[i % p]);
            }
        }
        Alpha::AllN => {
            for _ in 0..len {
                s.push('N');
            }
        }
    }
    s
}

/// A length biased towards the boundaries in `marks` (k-1, k, k+1, w-1, ...).
pub fn gen_len(rng: &mut Rng, marks: &[usize], max: usize) -> usize {
    match rng.weighted(&[25, 45, 20, 10]) {
        0 => {
            let m = *rng.pick(marks);
            let d = rng.usize(0, 2);
            (m + d).saturating_sub(1).min(max)
        }
        1 => rng.usize(1, max.min(60)),
        2 => rng.usize(max.min(40), max.min(300).max(max.min(40))),
        _ => rng.usize(0, max),
    }
}

pub fn gen_id(rng: &mut Rng, i: usize) -> String {
    const CH: &[u8] = b"ABCDEFGHIJKLMNOPQRSTUVWXYZabcdefghijklmnopqrstuvwxyz0123456789_.:|-/=";
    let mut s = format!("r{}", i);
    let extra = rng.usize(0, 6);
    if extra > 0 {
        s.push('_');
    }
    for _ in 0..extra {
        s.push(*rng.pick(CH) as char);
    }
    s
}

pub fn gen_desc(rng: &mut Rng) -> String {
    if rng.chance(2, 3) {
        return String::new();
    }
    gen_desc_text(rng)
}

fn gen_desc_text(rng: &mut Rng) -> String {
    const CH: &[u8] = b"abcdefghijklmnopqrstuvwxyz0123456789=:,;()[] >@+";
    let n = rng.usize(1, 20);
    let mut s = String::new();
    for _ in 0..n {
        s.push(*rng.pick(CH) as char);
    }
    // header lines are trimmed at the end by the parsers; keep the description
    // free of leading/trailing blanks so the expectation is unambiguous
    s.trim().to_string()
}

/// One sequence a little longer than 2^24 = 16 777 216 bases: counters kept in f32 stop
/// counting there, and so would a 24-bit field.  Either low-complexity (one canonical k-mer
/// occurs more than 2^24 times) or random (the number of windows alone passes 2^24).
pub fn gen_huge_seq(rng: &mut Rng) -> String {
    let len = 16_790_000 + rng.usize(0, 500_000);
    let mut v: Vec<u8> = Vec::with_capacity(len);
    match rng.below(3) {
        0 => {
            let b = *rng.pick(b"ACGT");
            v.resize(len, b);
            for _ in 0..rng.usize(0, 40) {
                let at = rng.usize(0, len - 1);
                v[at] = *rng.pick(b"ACGTN");
            }
        }
        1 => {
            let unit: Vec<u8> = (0..rng.usize(2, 3)).map(|_| *rng.pick(b"ACGT")).collect();
            while v.len() < len {
                v.extend_from_slice(&unit);
            }
            v.truncate(len);
        }
        _ => {
            while v.len() < len {
                let mut x = rng.next_u64();
                for _ in 0..32 {
                    v.push(b"ACGT"[(x & 3) as usize]);
                    x >>= 2;
                }
            }
            v.truncate(len);
        }
    }
    String::from_utf8(v).unwrap()
}

pub struct RecGen {
    pub min_records: usize,
    pub max_records: usize,
    pub max_len: usize,
    pub marks: Vec<usize>,
    /// weights for Clean, Mixed, WithN, Dirty, Homopolymer, Repeat, AllN
    pub alpha_w: [u64; 7],
    pub min_len: usize,
    /// probability (percent) that a record duplicates an earlier sequence
    pub dup_pct: u64,
    /// probability (percent) that a description is separated from the id by a
    /// TAB instead of a blank (C06 only: the id is the first *word*)
    pub tab_desc_pct: u64,
    /// probability (percent) that an id holds non-ASCII characters (2-, 3- and 4-byte
    /// UTF-8; never white space)
    pub utf8_id_pct: u64,
    /// probability (percent) that a record reuses the id of the record before it
    pub dup_id_pct: u64,
    /// one run in `mega_1_in` (0 = never) is 2-5 records of 0.6-1.6 Mbases each (plus a few
    /// short ones): rows, lines and per-record budgets of megabytes.  Only for pipelines
    /// whose cost in scheduling points is per record, not per k-mer.
    pub mega_1_in: u64,
    /// one run in `twin_mega_1_in` (0 = never) is 2-3 copies of one record of 2^20 .. 1.15 M
    /// bases: the counter's workers then walk the same k-mers at the same time
    pub twin_mega_1_in: u64,
    /// one run in `many_1_in` takes its record count from the ladder (1 500 everywhere but
    /// where rows are cheap and block arithmetic on the record count is the likely slip)
    pub many_1_in: u64,
    /// weight of the 2^16 rung among the "just past a power of two" record counts (the
    /// others: 2^10: 2, 2^12: 2, 2^14: 5); 3 where a row is cheap, 1 elsewhere
    pub overflow_top_w: u64,
}

const ALPHAS: [Alpha; 7] = [
    Alpha::Clean,
    Alpha::Mixed,
    Alpha::WithN,
    Alpha::Dirty,
    Alpha::Homopolymer,
    Alpha::Repeat,
    Alpha::AllN,
];

impl RecGen {
    pub fn gen(&self, rng: &mut Rng) -> Vec<Rec> {
        if self.mega_1_in > 0 && rng.chance(1, self.mega_1_in) {
            let alpha = *rng.pick(&[Alpha::Clean, Alpha::Clean, Alpha::Mixed, Alpha::WithN]);
            let mut out = Vec::new();
            let big = rng.usize(2, 5);
            let small = rng.usize(0, 3);
            let mut kinds: Vec<bool> = (0..big).map(|_| true).chain((0..small).map(|_| false)).collect();
            rng.shuffle(&mut kinds);
            for (i, is_big) in kinds.into_iter().enumerate() {
                let len = if is_big { rng.usize(600_000, 1_600_000) } else { rng.usize(0, 300) };
                out.push(Rec { id: gen_id(rng, i), desc: gen_desc(rng), seq: gen_seq(rng, len, alpha) });
            }
            return out;
        }
        if self.twin_mega_1_in > 0 && rng.chance(1, self.twin_mega_1_in) {
            let len = rng.usize(1 << 20, 1_150_000);
            let seq = gen_seq(rng, len, Alpha::Clean);
            let n = rng.usize(2, 3);
            return (0..n).map(|i| Rec { id: gen_id(rng, i), desc: String::new(), seq: seq.clone() }).collect();
        }
        // few records most of the time, sometimes many
        let n = if rng.chance(3, 4) {
            rng.usize(self.min_records, self.max_records.min(self.min_records + 7))
        } else {
            rng.usize(self.min_records, self.max_records)
        };
        // rare stratum: very many tiny records, to cross the 1 000-record buffer
        // capacity and the 10 000-record progress tick in the pipelines
        let many = self.max_records >= 16 && rng.chance(1, self.many_1_in.max(1));
        // ... on a ladder: a little around 1 000, 10 000 and the powers of two up to 2^16
        // and small multiples of them -- "exactly k blocks", "one more than fits", "the
        // 65 537th record" are where block arithmetic goes wrong
        let n = if many {
            const BASES: [usize; 9] = [1000, 1024, 2048, 4096, 8192, 10000, 16384, 32768, 65536];
            let base = BASES[rng.weighted(&[12, 24, 12, 8, 7, 24, 5, 4, 4])];
            let mult = match rng.below(10) {
                0 | 1 => 2,
                2 => 3,
                _ => 1,
            };
            let centre = (base * mult).min(69_000);
            let delta: i64 = match rng.below(10) {
                0 | 1 => 0,
                2..=6 => rng.range(0, 6) as i64 - 3,
                _ => rng.range(1, 40) as i64,
            };
            let n = (centre as i64 + delta).max(1) as usize;
            // a third of the ladder runs are "just past a power of two" on purpose: a few
            // records more than 2^14 or 2^16 (the natural capacities of a reorder ring, a
            // window of parked rows, a turn counter), so that a worker stopped in the middle
            // of one of the first records (starve scheduler) sees the others get a whole
            // capacity ahead before the input ends
            // (a third where rows are cheap, an eighth elsewhere: the other rungs find
            // block-arithmetic slips that these do not, see DESIGN 7.1m)
            if self.overflow_top_w >= 3 && rng.chance(1, 3) {
                [1024usize, 4096, 16384, 65536][rng.weighted(&[2, 2, 5, self.overflow_top_w])] + rng.usize(1, 40)
            } else {
                n
            }
        } else {
            n
        };
        let mut out: Vec<Rec> = Vec::with_capacity(n);
        // one alphabet for the whole file most of the time
        let file_alpha = ALPHAS[rng.weighted(&self.alpha_w)];
        for i in 0..n {
            let alpha = if rng.chance(4, 5) {
                file_alpha
            } else {
                ALPHAS[rng.weighted(&self.alpha_w)]
            };
            let seq = if i > 0 && rng.below(100) < self.dup_pct {
                out[rng.usize(0, i - 1)].seq.clone()
            } else {
                let len = if many {
                    rng.usize(self.min_len, self.min_len + self.marks.iter().copied().max().unwrap_or(8).min(24))
                } else {
                    gen_len(rng, &self.marks, self.max_len).max(self.min_len)
                };
                gen_seq(rng, len, alpha)
            };
            let mut desc = gen_desc(rng);
            if !desc.is_empty() && rng.below(100) < self.tab_desc_pct {
                desc = format!("\t{desc}");
            }
            let id = if i > 0 && rng.below(100) < self.dup_id_pct {
                out[i - 1].id.clone()
            } else {
                let mut id = gen_id(rng, i);
                if self.utf8_id_pct > 0 && rng.below(100) < self.utf8_id_pct {
                    const NA: &[char] = &['\u{e9}', '\u{e4}', '\u{df}', '\u{3a9}', '\u{4e2d}', '\u{20ac}', '\u{1f9ec}'];
                    for _ in 0..rng.usize(1, 3) {
                        let at = rng.usize(0, id.chars().count());
                        let byte_at = id.char_indices().nth(at).map(|x| x.0).unwrap_or(id.len());
                        id.insert(byte_at, *rng.pick(NA));
                    }
                }
                id
            };
            out.push(Rec { id, desc, seq });
        }
        // very rarely a bulk input: about 1 - 1.6 MB of sequence in a few dozen long
        // records (thresholds expressed in total bytes, e.g. "flush every MiB")
        if self.max_len >= 150 && self.max_records >= 16 && !many && rng.chance(1, 4000) {
            let n = rng.usize(18, 24);
            out.clear();
            let alpha = ALPHAS[rng.weighted(&self.alpha_w)];
            for i in 0..n {
                let len = rng.usize(50_000, 70_000);
                out.push(Rec {
                    id: gen_id(rng, i),
                    desc: gen_desc(rng),
                    seq: gen_seq(rng, len, alpha),
                });
            }
            return out;
        }
        // "very many records, and one or two of them far longer than the rest": the worker
        // that draws the long one is still busy while the others race thousands of
        // records ahead -- what reorder buffers, turn counters and windows are sized for
        if many && out.len() >= 1000 && rng.chance(1, 3) {
            for _ in 0..rng.usize(1, 2) {
                let at = if rng.chance(1, 2) { rng.usize(0, out.len() / 8) } else { rng.usize(0, out.len() - 1) };
                let len = rng.usize(30_000, 300_000);
                let alpha = *rng.pick(&[Alpha::Clean, Alpha::Mixed]);
                out[at].seq = gen_seq(rng, len, alpha);
            }
        }
        // now and then one record far longer than the rest, so that listings,
        // rows and lines cross the 4 KiB / 8 KiB buffer sizes used along the way
        if self.max_len >= 150 && !out.is_empty() && !many && rng.chance(1, 16) {
            let i = rng.usize(0, out.len() - 1);
            // mostly a few kb; one time in five beyond 16 KiB (slice / chunk sizes
            // of 2^14 are a natural choice for "process long records in pieces")
            let len = if rng.chance(1, 5) {
                rng.usize(16385, 70000)
            } else {
                rng.usize(1500, 9000)
            };
            let alpha = ALPHAS[rng.weighted(&self.alpha_w)];
            // a homopolymer / short repeat beyond 65 535 bases pushes one k-mer's
            // multiplicity past 16 bits
            let len = if matches!(alpha, Alpha::Homopolymer | Alpha::Repeat) && rng.chance(1, 2) {
                rng.usize(66000, 70000)
            } else {
                len
            };
            out[i].seq = gen_seq(rng, len, alpha);
        }
        out
    }
}

/// Container for a file input.  `allow_multi_member`: gzip files with several
/// members (C06 only, other engines stay with single-member files).
pub fn gen_container(rng: &mut Rng, records: &[Rec], allow_multi_member: bool, allow_gz: bool) -> Container {
    let any_empty = records.iter().any(|r| r.seq.is_empty());
    let fastq = !any_empty && rng.chance(1, 3);
    let mut c = if fastq {
        Container {
            format: Format::Fastq,
            // one FASTQ in five is multi-line (legal, and what the reader accepts)
            wrap: if rng.chance(1, 5) { *rng.pick(&[1usize, 3, 10, 60, 61, 80]) } else { 0 },
            crlf: rng.chance(1, 6),
            final_newline: !rng.chance(1, 6),
            gz: None,
            suffix: rng.pick(&[".fq", ".fastq"]).to_string(),
        }
    } else {
        Container {
            format: Format::Fasta,
            wrap: if rng.chance(1, 2) {
                0
            } else {
                *rng.pick(&[1usize, 2, 3, 7, 10, 60, 61, 70, 80, 120])
            },
            crlf: rng.chance(1, 6),
            final_newline: !rng.chance(1, 6),
            gz: None,
            suffix: rng.pick(&[".fa", ".fasta", ".fna"]).to_string(),
        }
    };
    if allow_gz && rng.chance(1, 3) {
        let mut cuts = Vec::new();
        let mut snap = false;
        if allow_multi_member && rng.chance(1, 2) && !records.is_empty() {
            let m = rng.usize(1, 4);
            for _ in 0..m {
                cuts.push(rng.usize(1, 9999));
            }
            cuts.sort_unstable();
            cuts.dedup();
            snap = rng.chance(1, 2);
        }
        c.gz = Some(Gz {
            cuts,
            snap,
            empty_tail: allow_multi_member && rng.chance(1, 4),
            level: *rng.pick(&[0u32, 1, 6, 9]),
        });
    }
    c
}

/// `allow_eintr`: only the reader property (C06) injects EINTR.  The batch
/// pipelines sniff the format through `BufRead::fill_buf`, which (legally) hands
/// an interrupted read to the caller, and kmertools reports that as "Invalid
/// stream"; no listed property speaks about it, so it is not injected there.
pub fn gen_io(rng: &mut Rng, allow_eintr: bool) -> IoSpec {
    if rng.chance(1, 3) {
        return IoSpec::off();
    }
    IoSpec {
        enabled: true,
        seed: rng.next_u64(),
        mode: rng
            .pick(&["", "", "full", "one", "small", "pow2", "boundary", "boundary"])
            .to_string(),
        eintr_permille: if allow_eintr {
            *rng.pick(&[0u32, 0, 50, 300])
        } else {
            0
        },
    }
}

pub fn gen_threads(rng: &mut Rng) -> usize {
    match rng.weighted(&[15, 50, 35]) {
        0 => 1,
        1 => rng.usize(2, 4),
        _ => rng.usize(5, 16),
    }
}
