//! Engine interface and helpers to execute one case under the simulator.

use crate::common::*;
use std::collections::BTreeMap;
use verif_rt::ctx::Stats;
use verif_rt::sched::{run_sim, Env, ExecResult, SchedLog};

#[derive(Clone, Debug, PartialEq)]
pub struct Violation {
    /// stable name of the oracle clause that failed (used for minimisation and
    /// for matching known findings)
    pub clause: String,
    pub detail: String,
}

#[derive(Default)]
pub struct Outcome {
    pub violation: Option<Violation>,
    /// scheduler log of the main execution of the case
    pub log: SchedLog,
    /// merged seam statistics of all executions of the case
    pub stats: Stats,
    pub probes: BTreeMap<String, u64>,
    pub execs: u64,
    pub steps_total: u64,
    /// digest of everything the case produced (outputs, results); feeds the
    /// determinism self-test
    pub digest: u64,
}

impl Outcome {
    pub fn probe(&mut self, name: &str, n: u64) {
        if n > 0 {
            *self.probes.entry(name.to_string()).or_insert(0) += n;
        }
    }
    pub fn fail(&mut self, clause: &str, detail: String) {
        if self.violation.is_none() {
            self.violation = Some(Violation {
                clause: clause.to_string(),
                detail: clip(&detail, 1500),
            });
        }
    }
    pub fn note(&mut self, bytes: &[u8]) {
        self.digest = verif_rt::rng::mix(&[self.digest, verif_rt::rng::hash_bytes(bytes)]);
    }
    pub fn absorb<T>(&mut self, r: &ExecResult<T>, main: bool) {
        self.execs += 1;
        self.steps_total += r.log.steps;
        merge_stats(&mut self.stats, &r.ctx.stats);
        if main {
            self.log = r.log.clone();
        }
    }
}

pub fn merge_stats(a: &mut Stats, b: &Stats) {
    a.hook_events += b.hook_events;
    for (k, v) in &b.points {
        *a.points.entry(k).or_insert(0) += v;
    }
    a.aborts_fired += b.aborts_fired;
    a.streams_opened += b.streams_opened;
    a.reads += b.reads;
    a.short_reads += b.short_reads;
    a.eintr += b.eintr;
    a.boundary_hits += b.boundary_hits;
    a.bytes_delivered += b.bytes_delivered;
    for (k, v) in &b.modes {
        *a.modes.entry(k).or_insert(0) += v;
    }
    a.mmap_writes += b.mmap_writes;
    a.mmap_out_of_order += b.mmap_out_of_order;
    a.pools_built += b.pools_built;
    a.jobs_spawned += b.jobs_spawned;
    a.par_items += b.par_items;
    a.par_batches += b.par_batches;
    a.max_pool_threads = a.max_pool_threads.max(b.max_pool_threads);
    a.tasks_started += b.tasks_started;
    a.tasks_refused += b.tasks_refused;
    a.map_ops += b.map_ops;
}

pub trait Engine: Sync {
    fn prop(&self) -> &'static str;
    fn generate(&self, rng: &mut verif_rt::rng::Rng, tier: &str) -> Case;
    fn execute(&self, case: &Case, sb: &Sandbox) -> Outcome;
    /// candidate simplifications of a failing case (workload level)
    fn shrink(&self, case: &Case) -> Vec<Case> {
        crate::minimise::generic_shrinks(case)
    }
    /// which evidence probes must be non-zero in a healthy batch
    fn required_probes(&self) -> Vec<&'static str> {
        vec![]
    }
    fn real_components(&self) -> Vec<&'static str>;
    fn stub_components(&self) -> Vec<&'static str> {
        vec![
            "rayon (contract-level model on shuttle tasks)",
            "std::sync::Mutex / atomics (shuttle's sequentially consistent versions via hook H3)",
            "delivery of input bytes (SimRead under get_reader, hook H1); the bytes themselves are real files",
        ]
    }
    fn nontrivial_rule(&self) -> &'static str;
    fn is_nontrivial(&self, case: &Case, out: &Outcome) -> bool;
}

pub const STEPS_QUICK: usize = 200_000;
pub const STEPS_THOROUGH: usize = 2_000_000;

pub fn max_steps(tier: &str) -> usize {
    if tier == "thorough" {
        STEPS_THOROUGH
    } else {
        STEPS_QUICK
    }
}

/// Step budget of a case: the tier's budget plus an allowance per record, so that
/// the rare "many tiny records" workloads (which exist to cross the 1 000- and
/// 10 000-record thresholds in the code) are not mistaken for livelocks.
pub fn steps_for(case: &Case) -> usize {
    let recs: usize = case.records.len() + case.extra.iter().map(|e| e.records.len()).sum::<usize>();
    let bases: usize = case.records.iter().map(|r| r.seq.len()).sum::<usize>()
        + case.extra.iter().flat_map(|e| e.records.iter()).map(|r| r.seq.len()).sum::<usize>();
    max_steps(&case.tier) + 400 * recs + 8 * bases
}

/// Run `f` inside one simulated execution; a panic of `f` itself is returned as
/// `Ok(Err(text))` (the pipeline panicked), a failure of the execution as a whole
/// (deadlock, step budget) as `Err(text)`.
pub fn sim<T, F>(
    sched: &Sched,
    io: &IoSpec,
    stdin: Option<Vec<u8>>,
    abort_at: Option<u64>,
    global_threads: usize,
    steps: usize,
    f: F,
) -> ExecResult<Result<T, String>>
where
    T: Send + 'static,
    F: FnOnce() -> T + Send + 'static,
{
    let env = Env {
        io: io.plan(),
        stdin,
        abort_at,
        global_threads,
        model_seed: verif_rt::rng::mix(&[sched.seed, io.seed, 0x5eed]),
    };
    // KMSIM_RUN_TO_BLOCK=1: no preemption -- a task keeps running until it blocks on a
    // simulated primitive or ends.  The supervisor uses it to tell a run that is stuck for
    // real from one that only blocks the simulator thread because a task was switched out
    // while it held a primitive the simulator does not control (a real std lock).
    static RUN_TO_BLOCK: std::sync::OnceLock<bool> = std::sync::OnceLock::new();
    let spec = if sched.kind != "replay" && *RUN_TO_BLOCK.get_or_init(|| std::env::var("KMSIM_RUN_TO_BLOCK").is_ok()) {
        verif_rt::sched::SchedSpec::Sticky { seed: sched.seed, stay: 16 }
    } else {
        sched.spec()
    };
    let r = run_sim(spec, steps.saturating_mul(STEP_SCALE.with(|c| c.get())), env, move || {
        match std::panic::catch_unwind(std::panic::AssertUnwindSafe(f)) {
            Ok(v) => Ok(v),
            Err(p) => {
                verif_rt::release_deferred();
                let t = verif_rt::sched::panic_text(&p);
                if t.contains("outside of a Shuttle test") || t.contains("ExecutionState::with` panicked") {
                    // simulated primitives reached from a real OS thread the code
                    // created itself: the simulator cannot run this tree
                    eprintln!("HARNESS-ERROR: code under test left the simulator (real thread?): {t}");
                    std::process::exit(2);
                }
                if t.contains("Cannot allocate memory") || t.contains("OutOfMemory") {
                    // the simulator itself ran out of a resource (coroutine
                    // stacks / mappings): a harness error, never a verdict
                    eprintln!("HARNESS-ERROR: simulator resource exhaustion: {t}");
                    std::process::exit(2);
                }
                Err(t)
            }
        }
    });
    if matches!(&r.value, Err(t) if t.contains("exceeded max_steps")) {
        BUDGET_HIT.with(|c| c.set(true));
    }
    r
}

thread_local! {
    static STEP_SCALE: std::cell::Cell<usize> = const { std::cell::Cell::new(1) };
    static BUDGET_HIT: std::cell::Cell<bool> = const { std::cell::Cell::new(false) };
}

/// Execute a case.  Step budgets are estimates (tier budget plus an allowance per record
/// and base); "no progress" is a verdict only if it survives a budget 16 times as large:
/// when some execution of the case runs into its budget, the whole case is executed again
/// with every budget scaled, and that second outcome is the result.  A livelock never
/// finishes under any budget and is reported as before; an estimate that was merely too
/// small for a legitimate workload is not mistaken for one.
pub fn run_case(engine: &dyn Engine, case: &Case, sb: &Sandbox) -> Outcome {
    BUDGET_HIT.with(|c| c.set(false));
    let o = engine.execute(case, sb);
    if !BUDGET_HIT.with(|c| c.get()) {
        return o;
    }
    STEP_SCALE.with(|c| c.set(16));
    BUDGET_HIT.with(|c| c.set(false));
    let mut o2 = engine.execute(case, sb);
    STEP_SCALE.with(|c| c.set(1));
    o2.probe("step_budget_retry_16x", 1);
    if BUDGET_HIT.with(|c| c.get()) {
        o2.probe("step_budget_exhausted_at_16x", 1);
    }
    o2.execs += o.execs;
    o2.steps_total += o.steps_total;
    o2
}

pub fn write_input(dir: &std::path::Path, stem: &str, records: &[Rec], c: &Container) -> String {
    let p = dir.join(c.file_name(stem));
    std::fs::write(&p, render_bytes(records, c)).expect("write input");
    path_str(&p)
}
