//! C08 -- coverage histogram rows bin each window by its global k-mer
//! multiplicity; rows in input order for every thread count, memory setting
//! and schedule.

use crate::common::*;
use crate::exec::*;
use crate::gen::*;
use crate::model;
use crate::params;
use crate::pipelines::*;
use verif_rt::rng::Rng;

pub struct C08;

pub fn gen_cov_case(rng: &mut Rng, tier: &str, prop: &str) -> Case {
    let thorough = tier == "thorough";
    let k = match rng.weighted(&[35, 30, 20, 15]) {
        0 => rng.usize(1, 3),
        1 => rng.usize(4, 9),
        2 => rng.usize(10, 27),
        _ => rng.usize(28, 31),
    };
    let g = RecGen {
        min_records: 1,
        max_records: if thorough { 100 } else { 30 },
        max_len: if thorough { 700 } else { 250 },
        marks: vec![k.saturating_sub(1), k, k + 1],
        alpha_w: [35, 12, 14, 8, 10, 18, 3],
        min_len: 0,
        dup_pct: 20,
            tab_desc_pct: 0,
            utf8_id_pct: 0,
            dup_id_pct: 0,
            mega_1_in: 0,
            twin_mega_1_in: 30000,
            many_1_in: 1500,
            overflow_top_w: 1,
    };
    let records = g.gen(rng);
    let container = gen_container(rng, &records, false, true);
    let threads = gen_threads(rng);
    let mut extra = vec![];
    if rng.chance(1, 3) {
        // separate counting input, partly sharing content with the main input
        let mut alt = g.gen(rng);
        for r in records.iter() {
            if rng.chance(1, 2) {
                alt.push(r.clone());
            }
        }
        let c = gen_container(rng, &alt, false, true);
        extra.push(SubRun {
            records: alt,
            container: c,
            sched: Sched::fifo(),
            params: params! {},
        });
    }
    // the ceiling governs the counting pass, which runs on the counting input
    let total: usize = extra
        .first()
        .map(|e| e.records.iter().map(|r| r.seq.len()).sum())
        .unwrap_or_else(|| records.iter().map(|r| r.seq.len()).sum());
    // below 1.0 the flush threshold `ceil as u64 * 2^30` is 0: one batch per
    // record, and the counter runs chunked; from 1.0 up: one batch, one chunk
    let gb = match rng.weighted(&[30, 30, 40]) {
        0 => *rng.pick(&[1.0, 6.0, 128.0]),
        1 => CountCfg::gb_for_limit(750_000_000 / 8),
        _ => {
            let lo = (total as u64 / 30).max(1);
            CountCfg::gb_for_limit(rng.range(lo, (total as u64).max(lo)))
        }
    };
    // bin size: small, medium (up to 200: not every size has an exact f64
    // reciprocal), or -- one case in four -- a multiplicity that really occurs
    // (or a divisor of one), so that counts land exactly on a bin edge
    let bin_size = {
        let count_records: &[Rec] = extra.first().map(|e| &e.records[..]).unwrap_or(&records[..]);
        let mult: Vec<u64> = if rng.chance(1, 4) {
            model::count_kmers(count_records.iter().map(|r| r.seq.as_bytes()), k)
                .values()
                .copied()
                .filter(|&c| c >= 2)
                .collect()
        } else {
            Vec::new()
        };
        if !mult.is_empty() {
            let c = *rng.pick(&mult) as usize;
            let divisors: Vec<usize> = (1..=c.min(400)).filter(|d| c % d == 0).collect();
            (*rng.pick(&divisors)).max(1)
        } else {
            match rng.weighted(&[25, 35, 25, 15]) {
                0 => 1,
                1 => rng.usize(2, 6),
                2 => rng.usize(7, 40),
                _ => rng.usize(41, 200),
            }
        }
    };
    let sched = Sched::draw(rng, 3 * total as u64 + 10 * records.len() as u64 + 16);
    Case {
        prop: prop.into(),
        tier: tier.into(),
        verif_seed: 0,
        index: 0,
        run_seed: 0,
        records,
        container,
        io: gen_io(rng, false),
        sched,
        params: params! {
            "k" => k,
            "threads" => threads,
            "gb" => gb,
            "norm" => !rng.chance(1, 2),
            "delim" => *rng.pick(&[",", "\t", " "]),
            "bin_size" => bin_size,
            "bin_count" => match rng.weighted(&[20, 50, 30]) { 0 => 1, 1 => rng.usize(2, 6), _ => rng.usize(7, 24) },
            "order" => if rng.chance(1, 2) { 0 } else { rng.range(1, 1 << 40) },
            "stale" => if rng.chance(1, 8) { rng.range(1, 1 << 40) } else { 0 },
            "dirty" => if rng.chance(1, 6) { rng.range(1, 1 << 40) } else { 0 },
        },
        extra,
    }
}

/// Expected histogram (raw counts) of one record.
pub fn expected_hist(
    seq: &[u8],
    k: usize,
    counts: &std::collections::BTreeMap<u64, u64>,
    bin_size: usize,
    bin_count: usize,
) -> Vec<u64> {
    let mut h = vec![0u64; bin_count];
    for c in model::canonical_kmers(seq, k) {
        let m = counts.get(&c).copied().unwrap_or(0);
        let b = std::cmp::min((m / bin_size as u64) as usize, bin_count - 1);
        h[b] += 1;
    }
    h
}

pub fn check_cov_rows(out: &mut Outcome, case: &Case, cfg: &CovCfg, bytes: &[u8], count_records: &[Rec]) {
    let counts = model::count_kmers(count_records.iter().map(|r| r.seq.as_bytes()), cfg.k);
    let text = match std::str::from_utf8(bytes) {
        Ok(t) => t,
        Err(_) => {
            out.fail("format", "kmers.vectors is not UTF-8".into());
            return;
        }
    };
    if !text.is_empty() && !text.ends_with('\n') {
        out.fail("format", "kmers.vectors does not end with a newline".into());
        return;
    }
    let lines: Vec<&str> = text.lines().collect();
    if lines.len() != case.records.len() {
        out.fail(
            "row_count",
            format!("{} rows for {} records (gb={}, threads={})", lines.len(), case.records.len(), cfg.gb, cfg.threads),
        );
        return;
    }
    for (i, (line, rec)) in lines.iter().zip(case.records.iter()).enumerate() {
        let fields: Vec<&str> = line.split(cfg.delim.as_str()).collect();
        if fields.len() != cfg.bin_count {
            out.fail("columns", format!("row {i} has {} entries, bin-count is {}", fields.len(), cfg.bin_count));
            return;
        }
        let h = expected_hist(rec.seq.as_bytes(), cfg.k, &counts, cfg.bin_size, cfg.bin_count);
        let total: u64 = h.iter().sum();
        for (b, f) in fields.iter().enumerate() {
            let v: f64 = match f.parse() {
                Ok(v) => v,
                Err(_) => {
                    out.fail("format", format!("row {i} entry {b} is not a number: {f:?}"));
                    return;
                }
            };
            let ok = if cfg.norm {
                let e = if total == 0 { 0.0 } else { h[b] as f64 / total as f64 };
                (v - e).abs() <= 5.1e-7
            } else {
                v == h[b] as f64
            };
            if !ok {
                out.fail(
                    "value",
                    format!(
                        "row {i} bin {b}: {f} but the record has {} of {} windows in that bin (k={}, bin-size={}, bin-count={}, norm={})",
                        h[b], total, cfg.k, cfg.bin_size, cfg.bin_count, cfg.norm
                    ),
                );
                return;
            }
        }
        if total == 0 {
            out.probe("record_without_window", 1);
        }
        if h[cfg.bin_count - 1] > 0 && counts.values().any(|&c| c / cfg.bin_size as u64 >= cfg.bin_count as u64) {
            out.probe("saturated_last_bin", 1);
        }
    }
}

impl Engine for C08 {
    fn prop(&self) -> &'static str {
        "C08"
    }

    fn generate(&self, rng: &mut Rng, tier: &str) -> Case {
        gen_cov_case(rng, tier, "C08")
    }

    fn execute(&self, case: &Case, sb: &Sandbox) -> Outcome {
        let mut out = Outcome::default();
        let dir = sb.fresh("c08");
        let cfg = CovCfg::from_params(&case.params);
        let in_path = write_input(&dir, "in", &case.records, &case.container);
        let alt_path = case
            .extra
            .first()
            .map(|e| write_input(&dir, "alt", &e.records, &e.container));
        let out_dir = dir.join("out");
        std::fs::create_dir_all(&out_dir).unwrap();
        // chunk files (and maybe a table) of an earlier, interrupted count in this directory
        let dirty = case.params.get("dirty").and_then(|v| v.as_u64()).unwrap_or(0);
        let kk = case.p_u64("k") as usize;
        let real: Vec<u64> = if dirty != 0 {
            // k-mers of the coverage records and of the counting input
            case.records
                .iter()
                .chain(case.extra.iter().flat_map(|e| e.records.iter()))
                .take(12)
                .flat_map(|r| model::canonical_kmers(r.seq.as_bytes(), kk).into_iter().take(64))
                .collect()
        } else {
            Vec::new()
        };
        if stale_counter_files(&out_dir, dirty, case.p_u64("threads").max(1) + 2, kk, &real) {
            out.probe("dirty_output_directory", 1);
        }
        if stale_output(&out_dir.join("kmers.vectors"), case.params.get("stale").and_then(|v| v.as_u64()).unwrap_or(0)) {
            out.probe("stale_output_file", 1);
        }
        let r = run_cov(
            &in_path,
            alt_path.as_deref(),
            &out_dir,
            &cfg,
            &case.sched,
            &case.io,
            None,
            steps_for(case),
        );
        out.absorb(&r, true);
        match &r.value {
            Err(e) => {
                out.fail("exec", format!("coverage run did not finish: {e}"));
                return out;
            }
            Ok(Err(p)) => {
                out.fail("panic", format!("coverage run panicked: {p}"));
                return out;
            }
            Ok(Ok(Err(e))) => {
                out.fail("error", format!("build_table returned Err: {e}"));
                return out;
            }
            Ok(Ok(Ok(()))) => {}
        }
        let count_records: &[Rec] = case.extra.first().map(|e| &e.records[..]).unwrap_or(&case.records[..]);
        match std::fs::read(out_dir.join("kmers.vectors")) {
            Err(_) => out.fail("no_output", "kmers.vectors missing".into()),
            Ok(bytes) => {
                out.note(&bytes);
                check_cov_rows(&mut out, case, &cfg, &bytes, count_records);
            }
        }
        if cfg.gb < 1.0 {
            out.probe("flush_per_record", 1);
        } else {
            out.probe("single_batch", 1);
        }
        if !case.extra.is_empty() {
            out.probe("separate_counting_input", 1);
        }
        if cfg.bin_size == 1 {
            out.probe("bin_size_1", 1);
        }
        if cfg.bin_count == 1 {
            out.probe("bin_count_1", 1);
        }
        out
    }

    fn required_probes(&self) -> Vec<&'static str> {
        vec!["stale_output_file", 
            "flush_per_record",
            "single_batch",
            "separate_counting_input",
            "saturated_last_bin",
            "record_without_window",
            "bin_size_1",
        ]
    }

    fn real_components(&self) -> Vec<&'static str> {
        vec![
            "coverage::CovComputer (build_table, compute_coverages)",
            "counter::CountComputer (count + merge, as called by build_table)",
            "scc::HashMap behind scheduling points, ktio::seq, kmer::kmer::KmerGenerator",
            "std::fs (kmers.counts, kmers.vectors, temp files) on a private tmpfs directory",
        ]
    }

    fn nontrivial_rule(&self) -> &'static str {
        "a case is records (+ optional separate counting input) x containers x delivery plan x (k, bin-size, bin-count, norm, delimiter, threads, memory setting) x schedule; non-trivial = at least 2 records, at least one valid window, and at least one scheduling decision among >= 2 runnable tasks; distinct = distinct (workload hash, schedule hash) pairs"
    }

    fn is_nontrivial(&self, case: &Case, out: &Outcome) -> bool {
        case.records.len() >= 2
            && case.records.iter().any(|r| r.seq.len() >= case.p_usize("k"))
            && out.log.choice_steps > 0
    }
}
