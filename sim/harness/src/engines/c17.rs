//! C17 -- outputs depend only on input and options, not on what is already on
//! disk.  Histories of 2..3 runs share one output location; earlier runs differ
//! in input, k, threads, memory ceiling, writer path, may keep their temporary
//! files, and may be cut short by an injected abort (with their unflushed tail
//! lost); the last run must leave exactly what it leaves in a fresh location.

use crate::common::*;
use crate::exec::*;
use crate::gen::*;
use crate::params;
use crate::pipelines::*;
use std::path::Path;
use verif_rt::rng::Rng;

pub struct C17;

const SUBS: &[&str] = &["oligo_mmap", "oligo_batch", "cgr", "kcgr", "cov", "ctr", "s2m", "m2s"];

fn gen_run(rng: &mut Rng, sub: &str, thorough: bool, base: Option<&Params>, via_cli: bool) -> (Vec<Rec>, Container, Params) {
    // parameters vary between the runs of a history, but stay in the family
    let keep = |name: &str, rng: &mut Rng, fresh: serde_json::Value| -> serde_json::Value {
        match base {
            Some(b) if rng.chance(1, 2) => b.get(name).cloned().unwrap_or(fresh),
            _ => fresh,
        }
    };
    let k = match sub {
        "oligo_mmap" | "oligo_batch" | "kcgr" if via_cli => rng.usize(3, 5),
        "oligo_mmap" | "oligo_batch" | "kcgr" => rng.usize(1, 5),
        "cov" if via_cli => *rng.pick(&[7usize, 8, 9, 12, 21, 31]),
        "ctr" if via_cli => *rng.pick(&[10usize, 11, 12, 21, 31]),
        "cov" | "ctr" => *rng.pick(&[1usize, 2, 3, 5, 8, 12, 21, 31]),
        _ => 0,
    };
    let k = keep("k", rng, serde_json::json!(k)).as_u64().unwrap() as usize;
    let m = if via_cli { rng.usize(7, 14) } else { rng.usize(1, 12) };
    let m = keep("m", rng, serde_json::json!(m)).as_u64().unwrap() as usize;
    let w = if rng.chance(1, 3) { 0 } else { m + rng.usize(1, 20) };
    let g = RecGen {
        min_records: 0,
        max_records: if thorough { 60 } else { 16 },
        max_len: if thorough { 400 } else { 160 },
        marks: vec![k.max(1), m, w.max(1)],
        alpha_w: if sub == "cgr" { [60, 40, 0, 0, 0, 0, 0] } else { [45, 15, 15, 5, 5, 13, 2] },
        min_len: 0,
        dup_pct: 10,
            tab_desc_pct: 0,
            utf8_id_pct: 0,
            dup_id_pct: 0,
            mega_1_in: 0,
            twin_mega_1_in: 0,
            many_1_in: 1500,
            overflow_top_w: 1,
    };
    let records = g.gen(rng);
    let container = gen_container(rng, &records, false, true);
    let total: usize = records.iter().map(|r| r.seq.len()).sum();
    let lo = (total as u64 / 12).max(1);
    let limit = if rng.chance(1, 2) { 750_000_000 } else { rng.range(lo, (total as u64).max(lo)) };
    let p = params! {
        "k" => k,
        "m" => m,
        "w" => w,
        "threads" => gen_threads(rng),
        "memory" => super::c11::gen_memory(rng, total),
        "header" => rng.chance(1, 2),
        "delim" => *rng.pick(&[",", "\t", " "]),
        "vecsize" => *rng.pick(&[1usize, 16, 100, 4096]),
        "norm" => rng.chance(1, 2),
        "gb" => if sub == "cov" && rng.chance(1, 3) { 6.0 } else { CountCfg::gb_for_limit(limit) },
        "acgt" => rng.chance(1, 3),
        "delete" => !rng.chance(1, 3),
        "bin_size" => if via_cli { rng.usize(5, 12) } else { rng.usize(1, 9) },
        "bin_count" => if via_cli { rng.usize(5, 12) } else { rng.usize(1, 9) },
        // only used by the command-line histories
        "via_cli" => via_cli,
        "preset" => *rng.pick(&["csv", "tsv", "spc"]),
        "cli_memory" => *rng.pick(&[6usize, 7, 64]),
        "cli_threads" => *rng.pick(&[0usize, 1, 2, 3, 8]),
        // separate counting input of cov: 0 none, 1 the first half of the run's
        // own records, 2 all but its first record
        "alt_mode" => if sub == "cov" && via_cli { rng.usize(0, 2) } else { 0 },
    };
    (records, container, p)
}

/// What one run of a history did.
struct RunEnd {
    ok: bool,
    aborted: bool,
    text: String,
}

fn run_sub(
    sub: &str,
    p: &Params,
    records: &[Rec],
    container: &Container,
    in_dir: &Path,
    stem: &str,
    loc: &Path,
    sched: &Sched,
    io: &IoSpec,
    abort_at: Option<u64>,
    steps: usize,
    out: &mut Outcome,
    main: bool,
) -> RunEnd {
    let classify = |v: &Result<Result<(), String>, String>, exec_err: &Option<String>| -> RunEnd {
        if let Some(e) = exec_err {
            return RunEnd { ok: false, aborted: false, text: format!("did not finish: {e}") };
        }
        match v {
            Ok(Ok(())) => RunEnd { ok: true, aborted: false, text: String::new() },
            Ok(Err(e)) => RunEnd { ok: false, aborted: false, text: format!("returned Err: {e}") },
            Err(p) if p == "SimAbort" => RunEnd { ok: false, aborted: true, text: "aborted".into() },
            Err(p) => RunEnd { ok: false, aborted: false, text: format!("panicked: {p}") },
        }
    };
    if p.get("via_cli").and_then(|v| v.as_bool()).unwrap_or(false) {
        // the same history through the command line (in-process cli())
        let mut q = p.clone();
        let csub = match sub {
            "oligo_mmap" | "oligo_batch" => "oligo",
            "s2m" | "m2s" => "min",
            other => other,
        };
        q.insert("sub".into(), serde_json::json!(csub));
        q.insert("counts".into(), serde_json::json!(if csub == "oligo" { sub == "oligo_batch" } else { !pbool(p, "norm") }));
        q.insert("minpreset".into(), serde_json::json!(if sub == "m2s" { "m2s" } else { "s2m" }));
        q.insert("memory".into(), serde_json::json!(pu64(p, "cli_memory")));
        q.insert("threads".into(), serde_json::json!(pu64(p, "cli_threads")));
        let in_path = write_input(in_dir, stem, records, container);
        let alt_records: Option<Vec<Rec>> = match pu64(p, "alt_mode") {
            1 => Some(records[..records.len() / 2].to_vec()),
            2 => Some(records.iter().skip(1).cloned().collect()),
            _ => None,
        };
        let alt_path = alt_records.map(|a| write_input(in_dir, &format!("{stem}_alt"), &a, &Container::plain_fasta()));
        let dir_based = matches!(sub, "cov" | "ctr");
        let out_path = if dir_based { path_str(loc) } else { path_str(&loc.join("result")) };
        let b = super::c15::build_argv(&q, &in_path, alt_path.as_deref(), &out_path);
        let r = run_cli(b.argv, None, sched, io, abort_at, 4, steps);
        out.absorb(&r, main);
        out.probe("history_through_cli", 1);
        return match &r.value {
            Err(e) => classify(&Err(String::new()), &Some(e.clone())),
            Ok(Ok(CliEnd::Returned)) => classify(&Ok(Ok(())), &None),
            Ok(Ok(CliEnd::ParseError(e))) => classify(&Ok(Err(format!("parse error: {e}"))), &None),
            Ok(Err(pn)) => classify(&Err(pn.clone()), &None),
        };
    }
    match sub {
        "oligo_mmap" | "oligo_batch" => {
            let cfg = OligoCfg {
                k: pu64(p, "k") as usize,
                threads: pu64(p, "threads") as usize,
                memory: pu64(p, "memory") as usize,
                norm: sub == "oligo_mmap",
                header: pbool(p, "header"),
                delim: pstr(p, "delim"),
                stdin: false,
                order: 0,
            };
            let (r, ro) = run_oligo(in_dir, stem, records, container, &cfg, sched, io, abort_at, steps, &loc.join("result"));
            out.absorb(&r, main);
            classify(&ro.status, &ro.exec_error)
        }
        "cgr" | "kcgr" => {
            let cfg = CgrCfg {
                k: if sub == "cgr" { 0 } else { pu64(p, "k") as usize },
                vecsize: pu64(p, "vecsize") as usize,
                threads: pu64(p, "threads") as usize,
                memory: pu64(p, "memory") as usize,
                norm: pbool(p, "norm"),
                stdin: false,
                order: 0,
            };
            let (r, ro) = run_cgr(in_dir, stem, records, container, &cfg, sched, io, abort_at, steps, &loc.join("result"));
            out.absorb(&r, main);
            classify(&ro.status, &ro.exec_error)
        }
        "cov" => {
            let cfg = CovCfg::from_params(p);
            let in_path = write_input(in_dir, stem, records, container);
            let r = run_cov(&in_path, None, loc, &cfg, sched, io, abort_at, steps);
            out.absorb(&r, main);
            match &r.value {
                Err(e) => classify(&Err(String::new()), &Some(e.clone())),
                Ok(v) => classify(v, &None),
            }
        }
        "ctr" => {
            let cfg = CountCfg::from_params(p);
            let in_path = write_input(in_dir, stem, records, container);
            let r = run_counter(&in_path, loc, &cfg, sched, io, abort_at, steps);
            out.absorb(&r, main);
            match &r.value {
                Err(e) => classify(&Err(String::new()), &Some(e.clone())),
                Ok(Ok(())) => classify(&Ok(Ok(())), &None),
                Ok(Err(pn)) => classify(&Err(pn.clone()), &None),
            }
        }
        _ => {
            let cfg = MinCfg {
                w: pu64(p, "w") as usize,
                m: pu64(p, "m") as usize,
                threads: pu64(p, "threads") as usize,
                preset: sub.to_string(),
            };
            let in_path = write_input(in_dir, stem, records, container);
            let r = run_min(&in_path, &loc.join("result"), &cfg, sched, io, abort_at, 4, steps);
            out.absorb(&r, main);
            match &r.value {
                Err(e) => classify(&Err(String::new()), &Some(e.clone())),
                Ok(Ok(())) => classify(&Ok(Ok(())), &None),
                Ok(Err(pn)) => classify(&Err(pn.clone()), &None),
            }
        }
    }
}

/// (file name, ordered?) of the documented result files of a subcommand.
fn result_files(sub: &str) -> Vec<(&'static str, bool)> {
    match sub {
        "oligo_mmap" | "oligo_batch" | "cgr" | "kcgr" => vec![("result", true)],
        "cov" => vec![("kmers.vectors", true), ("kmers.counts", false)],
        "ctr" => vec![("kmers.counts", false)],
        _ => vec![("result", false)],
    }
}

fn sorted_lines(b: &[u8]) -> Vec<Vec<u8>> {
    canonical_unordered(b)
}

impl Engine for C17 {
    fn prop(&self) -> &'static str {
        "C17"
    }

    fn generate(&self, rng: &mut Rng, tier: &str) -> Case {
        let thorough = tier == "thorough";
        let sub = *rng.pick(SUBS);
        let via_cli = rng.chance(1, 4);
        let (records, container, mut p) = gen_run(rng, sub, thorough, None, via_cli);
        p.insert("sub".into(), serde_json::json!(sub));
        let mut extra = Vec::new();
        let n_prior = rng.usize(1, 2);
        for _ in 0..n_prior {
            // an earlier run may have used another writer path of the same command
            let file_based = !matches!(sub, "cov" | "ctr");
            let psub = match sub {
                // now and then the earlier run was a different command writing to
                // the same output path (all of these write <location>/result)
                _ if file_based && rng.chance(1, 5) => *rng.pick(&["oligo_mmap", "oligo_batch", "cgr", "kcgr", "s2m", "m2s"]),
                "oligo_mmap" | "oligo_batch" if rng.chance(1, 2) => *rng.pick(&["oligo_mmap", "oligo_batch"]),
                "cgr" | "kcgr" if rng.chance(1, 3) => *rng.pick(&["cgr", "kcgr"]),
                "cov" | "ctr" if rng.chance(1, 3) => *rng.pick(&["cov", "ctr"]),
                "s2m" | "m2s" if rng.chance(1, 3) => *rng.pick(&["s2m", "m2s"]),
                s => s,
            };
            let same_command_again = rng.chance(1, 6) && psub == sub;
            let (mut r2, mut c2, mut p2) = gen_run(rng, psub, thorough, Some(&p), via_cli);
            if same_command_again {
                r2 = records.clone();
                c2 = container.clone();
                p2 = p.clone();
            } else if rng.chance(1, 2) {
                // make the earlier output longer than the last one more often
                let (r3, _, _) = gen_run(rng, psub, thorough, Some(&p), via_cli);
                r2.extend(r3);
                for (i, r) in r2.iter_mut().enumerate() {
                    r.id = format!("p{}_{}", i, r.id);
                }
                c2 = gen_container(rng, &r2, false, true);
                // the ceiling was drawn for the shorter input: redraw it, or the
                // sizing rule asks for thousands of partitions
                let total2: u64 = r2.iter().map(|r| r.seq.len() as u64).sum();
                let lo = (total2 / 12).max(1);
                let limit = if rng.chance(1, 2) { 750_000_000 } else { rng.range(lo, total2.max(lo)) };
                p2.insert("gb".into(), serde_json::json!(CountCfg::gb_for_limit(limit)));
            }
            p2.insert("sub".into(), serde_json::json!(psub));
            // fault: the earlier run is cut short at a seeded hook event
            let abort = if rng.chance(2, 5) {
                match rng.weighted(&[40, 40, 20]) {
                    0 => rng.range(1, 12),
                    1 => rng.range(13, 120),
                    _ => rng.range(121, 2000),
                }
            } else {
                0
            };
            p2.insert("abort_at".into(), serde_json::json!(abort));
            // ... and what it had not flushed is lost: truncate its files
            p2.insert("truncate_seed".into(), serde_json::json!(if abort > 0 && rng.chance(1, 2) { rng.range(1, 1 << 30) } else { 0 }));
            let total2: u64 = r2.iter().map(|r| r.seq.len() as u64).sum();
            extra.push(SubRun {
                records: r2,
                container: c2,
                sched: Sched::draw(rng, 3 * total2 + 16),
                params: p2,
            });
        }
        let total: u64 = records.iter().map(|r| r.seq.len() as u64).sum();
        let sched = Sched::draw(rng, 3 * total + 16);
        Case {
            prop: "C17".into(),
            tier: tier.into(),
            verif_seed: 0,
            index: 0,
            run_seed: 0,
            records,
            container,
            io: gen_io(rng, false),
            sched,
            params: p,
            extra,
        }
    }

    fn execute(&self, case: &Case, sb: &Sandbox) -> Outcome {
        let mut out = Outcome::default();
        let inputs = sb.fresh("c17_in");
        let loc = sb.fresh("c17_loc");
        let fresh = sb.fresh("c17_fresh");
        let steps = steps_for(case);
        let sub = case.p_str("sub");
        out.probe(&format!("sub_{sub}"), 1);
        // earlier runs of the history
        for (i, e) in case.extra.iter().enumerate() {
            let psub = pstr(&e.params, "sub");
            let abort = pu64(&e.params, "abort_at");
            let end = run_sub(
                &psub,
                &e.params,
                &e.records,
                &e.container,
                &inputs,
                &format!("prior{i}"),
                &loc,
                &e.sched,
                &case.io,
                if abort > 0 { Some(abort) } else { None },
                steps,
                &mut out,
                false,
            );
            if end.aborted {
                out.probe("prior_run_aborted", 1);
                let ts = pu64(&e.params, "truncate_seed");
                if ts > 0 {
                    let mut r = Rng::new(ts);
                    for name in list_dir(&loc) {
                        let p = loc.join(&name);
                        if let Ok(md) = std::fs::metadata(&p) {
                            if md.is_file() && md.len() > 0 && r.chance(1, 2) {
                                let keep = r.range(0, md.len() - 1);
                                if let Ok(f) = std::fs::OpenOptions::new().write(true).open(&p) {
                                    let _ = f.set_len(keep);
                                    out.probe("prior_file_truncated", 1);
                                }
                            }
                        }
                    }
                }
            } else if !end.ok {
                out.probe("prior_run_failed_otherwise", 1);
                out.probe(&format!("prior_failed: {}", clip(&end.text, 600)), 1);
            }
            if psub != sub {
                out.probe("prior_run_other_writer_or_mode", 1);
            }
        }
        let stale = list_dir(&loc);
        if stale.iter().any(|n| n.starts_with("temp_kmers")) {
            out.probe("stale_temp_chunk_files", 1);
        }
        let stale_sizes: Vec<(String, u64)> = stale
            .iter()
            .map(|n| (n.clone(), std::fs::metadata(loc.join(n)).map(|m| m.len()).unwrap_or(0)))
            .collect();
        // the last run, into the used location ...
        let a = run_sub(
            &sub, &case.params, &case.records, &case.container, &inputs, "last", &loc, &case.sched, &case.io, None, steps, &mut out, true,
        );
        // ... and alone into a fresh one
        let b = run_sub(
            &sub, &case.params, &case.records, &case.container, &inputs, "last", &fresh, &case.sched, &case.io, None, steps, &mut out, false,
        );
        if a.ok != b.ok || a.text != b.text {
            out.fail(
                "status",
                format!(
                    "the last run ends differently in the used location ({}) than in a fresh one ({}); stale content: {:?}",
                    if a.ok { "ok".to_string() } else { a.text.clone() },
                    if b.ok { "ok".to_string() } else { b.text.clone() },
                    stale_sizes
                ),
            );
            return out;
        }
        if !b.ok {
            // the last run fails on its own (another property's business)
            out.probe("last_run_fails_on_its_own", 1);
            out.probe(&format!("last_failed: {}", clip(&b.text, 60)), 1);
            return out;
        }
        for (name, ordered) in result_files(&sub) {
            let fa = std::fs::read(loc.join(name));
            let fb = std::fs::read(fresh.join(name));
            match (fa, fb) {
                (Ok(x), Ok(y)) => {
                    out.note(&if ordered { x.clone() } else { sorted_lines(&x).concat() });
                    let same = if ordered { x == y } else { sorted_lines(&x) == sorted_lines(&y) };
                    if !same {
                        let stale_len = stale_sizes.iter().find(|s| s.0 == name).map(|s| s.1);
                        out.fail(
                            "stale_content",
                            format!(
                                "{name} after the history has {} bytes, in a fresh location {} bytes (first difference at byte {}); the location held {:?} bytes of it before the last run; stale files: {:?}",
                                x.len(),
                                y.len(),
                                super::c05::first_diff(&x, &y),
                                stale_len,
                                stale_sizes
                            ),
                        );
                        return out;
                    }
                    if let Some((_, l)) = stale_sizes.iter().find(|s| s.0 == name) {
                        if *l > y.len() as u64 {
                            out.probe("stale_result_longer_than_new", 1);
                        } else if *l < y.len() as u64 {
                            out.probe("stale_result_shorter_than_new", 1);
                        }
                    }
                }
                (Err(_), Err(_)) => {}
                (x, y) => {
                    out.fail(
                        "missing",
                        format!("{name}: present in the used location = {}, in the fresh one = {}", x.is_ok(), y.is_ok()),
                    );
                    return out;
                }
            }
        }
        out
    }

    fn required_probes(&self) -> Vec<&'static str> {
        vec![
            "prior_run_aborted",
            "prior_file_truncated",
            "stale_temp_chunk_files",
            "stale_result_longer_than_new",
            "stale_result_shorter_than_new",
            "prior_run_other_writer_or_mode",
            "history_through_cli",
        ]
    }

    fn real_components(&self) -> Vec<&'static str> {
        vec![
            "all file-writing pipelines: composition::{oligo (both writers), cgr, oligocgr}, coverage, counter, misc::minimisers",
            "ktio::mmap (truncate + set_len + real mapping), std::fs on a private tmpfs directory that survives from one simulated run to the next",
        ]
    }

    fn nontrivial_rule(&self) -> &'static str {
        "a case is a history: 1..2 earlier runs (other input, k, threads, ceiling, writer path; 40% cut short by an injected abort at a seeded hook event, half of those with their files truncated) followed by the last run, all into one location, plus the last run alone in a fresh location; non-trivial = the location held at least one file when the last run started; distinct = distinct (history hash, schedule hash) pairs"
    }

    fn is_nontrivial(&self, _case: &Case, out: &Outcome) -> bool {
        out.probes.contains_key("stale_result_longer_than_new")
            || out.probes.contains_key("stale_result_shorter_than_new")
            || out.probes.contains_key("stale_temp_chunk_files")
            || out.probes.contains_key("prior_run_aborted")
    }
}
