//! C15 -- command-line options mean what they say and nothing more.
//! The command line runs in-process (`Cli::try_parse_from` + `cli()`), under a
//! seeded schedule with the `-t` value under test; its result files are compared
//! with the library called through the setters the option names imply, with
//! related command lines (counts vs default, --acgt vs numeric), and values one
//! step outside each documented range must be refused without output.

use crate::common::*;
use crate::exec::*;
use crate::gen::*;
use crate::model;
use crate::params;
use crate::pipelines::*;
use std::path::Path;
use verif_rt::rng::Rng;

pub struct C15;

/// Documented ranges, copied from the option declarations (kmertools/src/args.rs
/// value_parser ranges and the two refusals in cli()).
///   comp oligo -k 3..=7 ; comp cgr -k 3..=7
///   cov -k 7..=31, -s >= 5, -c >= 5, -m 6..=128
///   min -m 7..=28, -w 0 or > m
///   ctr -k 10..=31, -m 6..=128
fn delim_of(preset: &str) -> &'static str {
    match preset {
        "csv" => ",",
        "tsv" => "\t",
        _ => " ",
    }
}

fn s(x: &str) -> String {
    x.to_string()
}

pub struct Built {
    pub argv: Vec<String>,
    /// output path (file or directory)
    pub out: String,
}

pub fn build_argv(p: &Params, in_path: &str, alt: Option<&str>, out: &str) -> Built {
    let sub = pstr(p, "sub");
    let t = pu64(p, "threads").to_string();
    let mut a = vec![s("kmertools")];
    match sub.as_str() {
        "oligo" => {
            a.extend([s("comp"), s("oligo"), s("-i"), s(in_path), s("-o"), s(out), s("-k"), pu64(p, "k").to_string(), s("-p"), pstr(p, "preset"), s("-t"), t]);
            if pbool(p, "counts") {
                a.push(s("-c"));
            }
            if pbool(p, "header") {
                a.push(s("-H"));
            }
        }
        "cgr" => {
            a.extend([s("comp"), s("cgr"), s("-i"), s(in_path), s("-o"), s(out), s("-v"), pu64(p, "vecsize").to_string(), s("-t"), t]);
        }
        "kcgr" => {
            a.extend([s("comp"), s("cgr"), s("-i"), s(in_path), s("-o"), s(out), s("-k"), pu64(p, "k").to_string(), s("-v"), pu64(p, "vecsize").to_string(), s("-t"), t]);
            if pbool(p, "counts") {
                a.push(s("--counts"));
            }
        }
        "cov" => {
            a.extend([
                s("cov"), s("-i"), s(in_path), s("-o"), s(out), s("-k"), pu64(p, "k").to_string(), s("-p"), pstr(p, "preset"),
                s("--bin-size"), pu64(p, "bin_size").to_string(), s("--bin-count"), pu64(p, "bin_count").to_string(),
                s("-m"), pu64(p, "memory").to_string(), s("-t"), t,
            ]);
            if pbool(p, "counts") {
                a.push(s("--counts"));
            }
            if let Some(alt) = alt {
                a.extend([s("--alt-input"), s(alt)]);
            }
        }
        "ctr" => {
            a.extend([s("ctr"), s("-i"), s(in_path), s("-o"), s(out), s("-k"), pu64(p, "k").to_string(), s("-m"), pu64(p, "memory").to_string(), s("-t"), t]);
            if pbool(p, "acgt") {
                a.push(s("--acgt"));
            }
        }
        _ => {
            a.extend([
                s("min"), s("-i"), s(in_path), s("-o"), s(out), s("-m"), pu64(p, "m").to_string(), s("-w"), pu64(p, "w").to_string(),
                s("-p"), pstr(p, "minpreset"), s("-t"), t,
            ]);
        }
    }
    Built { argv: a, out: s(out) }
}

/// The library called with the setters the options imply; one thread.
fn run_library(p: &Params, in_path: &str, alt: Option<&str>, out: &str, out_o: &mut Outcome, steps: usize) -> Result<(), String> {
    let sub = pstr(p, "sub");
    let k = pu64(p, "k") as usize;
    let in_path = in_path.to_string();
    let alt = alt.map(|x| x.to_string());
    let out = out.to_string();
    let p = p.clone();
    // sequential reference run: the budget only has to be generous (a k-mer table of a
    // bulk input is one scheduling point per k-mer)
    let r = sim(&Sched::fifo(), &IoSpec::off(), None, None, 1, STEPS_THOROUGH + 4 * steps, move || -> Result<(), String> {
        match sub.as_str() {
            "oligo" => {
                let mut c = composition::oligo::OligoComputer::new(in_path, out, k);
                // the same settings, made in a seeded order: the result must
                // not depend on the order of independent setters
                for i in setter_order(4, pu64(&p, "order")) {
                    match i {
                        0 => c.set_threads(1),
                        1 => c.set_norm(!pbool(&p, "counts")),
                        2 => c.set_header(pbool(&p, "header")),
                        _ => c.set_delim(delim_of(&pstr(&p, "preset")).to_string()),
                    }
                }
                c.vectorise()
            }
            "cgr" => {
                let mut c = composition::cgr::CgrComputer::new(in_path, out, pu64(&p, "vecsize") as usize);
                c.set_threads(1);
                c.vectorise()
            }
            "kcgr" => {
                let mut c = composition::oligocgr::OligoCgrComputer::new(in_path, out, k, pu64(&p, "vecsize") as usize);
                c.set_threads(1);
                c.set_norm(!pbool(&p, "counts"));
                c.vectorise()
            }
            "cov" => {
                std::fs::create_dir_all(&out).map_err(|e| e.to_string())?;
                let mut c = coverage::CovComputer::new(in_path, out, k, pu64(&p, "bin_size") as usize, pu64(&p, "bin_count") as usize);
                let mut alt = alt;
                for i in setter_order(5, pu64(&p, "order")) {
                    match i {
                        0 => c.set_threads(1),
                        1 => c.set_norm(!pbool(&p, "counts")),
                        2 => c.set_delim(delim_of(&pstr(&p, "preset")).to_string()),
                        3 => c.set_max_memory(pu64(&p, "memory") as f64),
                        _ => {
                            if let Some(a) = alt.take() {
                                c.set_kmer_path(a);
                            }
                        }
                    }
                }
                c.build_table()?;
                c.compute_coverages();
                Ok(())
            }
            "ctr" => {
                std::fs::create_dir_all(&out).map_err(|e| e.to_string())?;
                let mut c = counter::CountComputer::new(in_path, out, k);
                c.set_threads(1);
                c.set_acgt_output(pbool(&p, "acgt"));
                c.set_max_memory(pu64(&p, "memory") as f64);
                c.count();
                c.merge(true);
                Ok(())
            }
            _ => {
                let (w, m) = (pu64(&p, "w") as usize, pu64(&p, "m") as usize);
                if pstr(&p, "minpreset") == "m2s" {
                    misc::minimisers::bin_sequences(w, m, &in_path, &out, 1);
                } else {
                    misc::minimisers::seq_to_min(w, m, &in_path, &out, 1);
                }
                Ok(())
            }
        }
    });
    out_o.absorb(&r, false);
    match r.value {
        Err(e) => Err(format!("library run did not finish: {e}")),
        Ok(Err(p)) => Err(format!("library run panicked: {p}")),
        Ok(Ok(Err(e))) => Err(format!("library run returned Err: {e}")),
        Ok(Ok(Ok(()))) => Ok(()),
    }
}

fn result_files(p: &Params) -> Vec<(String, bool)> {
    match pstr(p, "sub").as_str() {
        "oligo" | "cgr" | "kcgr" => vec![(String::new(), true)],
        "cov" => vec![(s("/kmers.vectors"), true), (s("/kmers.counts"), false)],
        "ctr" => vec![(s("/kmers.counts"), false)],
        _ => vec![(String::new(), false)],
    }
}

fn sorted_lines(b: &[u8]) -> Vec<Vec<u8>> {
    canonical_unordered(b)
}

fn rows_f64(bytes: &[u8], delim: &str, skip: usize) -> Option<Vec<Vec<f64>>> {
    let t = std::str::from_utf8(bytes).ok()?;
    let mut out = Vec::new();
    for line in t.lines().skip(skip) {
        let mut row = Vec::new();
        for f in line.split(delim) {
            row.push(f.parse::<f64>().ok()?);
        }
        out.push(row);
    }
    Some(out)
}

impl Engine for C15 {
    fn prop(&self) -> &'static str {
        "C15"
    }

    fn generate(&self, rng: &mut Rng, tier: &str) -> Case {
        let thorough = tier == "thorough";
        let sub = *rng.pick(&["oligo", "oligo", "cgr", "kcgr", "cov", "cov", "ctr", "min", "min"]);
        let k = match sub {
            "oligo" | "kcgr" => rng.usize(3, if thorough { 7 } else { 6 }),
            "cov" => rng.usize(7, 31),
            "ctr" => rng.usize(10, 31),
            _ => 0,
        };
        let m = rng.usize(7, 28);
        let w = if rng.chance(1, 3) { 0 } else { m + rng.usize(1, 30) };
        let g = RecGen {
            min_records: 1,
            max_records: if thorough { 80 } else { 20 },
            max_len: if thorough { 600 } else { 220 },
            marks: vec![k.max(1), m, w.max(1), 40],
            alpha_w: if sub == "cgr" { [60, 40, 0, 0, 0, 0, 0] } else { [45, 15, 15, 5, 5, 13, 2] },
            min_len: if sub == "cgr" { 0 } else { 1 },
            dup_pct: 15,
            tab_desc_pct: 0,
            utf8_id_pct: 0,
            dup_id_pct: 0,
            // megabase records where the cost is per record (oligo, k-mer CGR, min); the
            // commands that count k-mers pay one scheduling point per k-mer
            mega_1_in: if matches!(sub, "oligo" | "kcgr" | "min") { 2500 } else { 0 },
            twin_mega_1_in: 0,
            many_1_in: 1500,
            overflow_top_w: 1,
        };
        let mut records = g.gen(rng);
        if (sub == "oligo" || sub == "kcgr") && k >= 6 {
            records.truncate(6);
        }
        let stdin = (sub == "oligo" || sub == "cgr" || sub == "kcgr") && rng.chance(1, 4);
        let mut container = gen_container(rng, &records, false, !stdin);
        if stdin {
            container.gz = None;
        }
        let mut extra = vec![];
        if sub == "cov" && rng.chance(1, 3) {
            let mut alt = g.gen(rng);
            alt.extend(records.iter().filter(|_| true).take(3).cloned());
            let c = gen_container(rng, &alt, false, true);
            extra.push(SubRun {
                records: alt,
                container: c,
                sched: Sched::fifo(),
                params: params! {},
            });
        }
        // one option pushed one step outside its documented range?
        let invalid = if rng.chance(1, 4) {
            match sub {
                "oligo" | "kcgr" => *rng.pick(&["k=2", "k=8", "k=0"]),
                "cov" => *rng.pick(&["k=6", "k=32", "bin_size=4", "bin_count=4", "memory=5", "memory=129", "bin_size=0"]),
                "ctr" => *rng.pick(&["k=9", "k=32", "memory=5", "memory=129"]),
                "min" => *rng.pick(&["m=6", "m=29", "m=31", "w<=m", "w=m"]),
                _ => "",
            }
        } else {
            ""
        };
        let total: u64 = records.iter().map(|r| r.seq.len() as u64).sum();
        let sched = Sched::draw(rng, 3 * total + 16);
        Case {
            prop: "C15".into(),
            tier: tier.into(),
            verif_seed: 0,
            index: 0,
            run_seed: 0,
            records,
            container,
            io: gen_io(rng, false),
            sched,
            params: params! {
                "sub" => sub,
                "k" => k,
                "m" => m,
                "w" => w,
                "threads" => *rng.pick(&[0usize, 1, 2, 3, 4, 7, 8, 16]),
                "auto_threads" => rng.usize(1, 8),
                "counts" => rng.chance(1, 2),
                "header" => rng.chance(1, 2),
                "preset" => *rng.pick(&["csv", "tsv", "spc"]),
                "minpreset" => *rng.pick(&["s2m", "m2s"]),
                "acgt" => rng.chance(1, 2),
                "vecsize" => *rng.pick(&[1usize, 2, 16, 25, 100, 1 << 10]),
                "bin_size" => rng.usize(5, 30),
                "bin_count" => rng.usize(5, 30),
                "memory" => *rng.pick(&[6usize, 6, 7, 64, 128]),
                "stdin" => stdin,
                "invalid" => invalid,
                "relation" => rng.chance(1, 3),
                "relation_kind" => rng.usize(0, 2),
                "order" => if rng.chance(1, 2) { 0 } else { rng.range(1, 1 << 40) },
            },
            extra,
        }
    }

    fn execute(&self, case: &Case, sb: &Sandbox) -> Outcome {
        let mut out = Outcome::default();
        let dir = sb.fresh("c15");
        let p = &case.params;
        let sub = pstr(p, "sub");
        out.probe(&format!("sub_{sub}"), 1);
        let stdin = pbool(p, "stdin");
        let file_in = write_input(&dir, "in", &case.records, &case.container);
        let in_cli = if stdin { s("-") } else { file_in.clone() };
        let stdin_bytes = |on: bool| if on { Some(render_bytes(&case.records, &case.container)) } else { None };
        let alt = case.extra.first().map(|e| write_input(&dir, "alt", &e.records, &e.container));
        let steps = steps_for(case);
        let auto = pu64(p, "auto_threads") as usize;
        let invalid = pstr(p, "invalid");

        // ---- refusal of out-of-range values
        if !invalid.is_empty() {
            out.probe("out_of_range_case", 1);
            let mut q = p.clone();
            match invalid.as_str() {
                "w<=m" => {
                    let m = pu64(p, "m");
                    q.insert(s("w"), serde_json::json!(1 + (case.run_seed % m.max(1))));
                }
                "w=m" => {
                    q.insert(s("w"), serde_json::json!(pu64(p, "m")));
                }
                kv => {
                    let (key, val) = kv.split_once('=').unwrap();
                    q.insert(s(key), serde_json::json!(val.parse::<u64>().unwrap()));
                }
            }
            let outp = path_str(&dir.join("refused_out"));
            let b = build_argv(&q, &in_cli, alt.as_deref(), &outp);
            let r = run_cli(b.argv.clone(), stdin_bytes(stdin), &case.sched, &case.io, None, auto, steps);
            out.absorb(&r, true);
            let produced = Path::new(&b.out).exists();
            match &r.value {
                Ok(Ok(CliEnd::ParseError(_))) => {
                    out.probe("refused_by_parser", 1);
                }
                Ok(Ok(CliEnd::Returned)) if !produced => {
                    out.probe("refused_by_cli", 1);
                }
                other => {
                    let how = match other {
                        Ok(Ok(CliEnd::Returned)) => s("ran and produced output"),
                        Ok(Err(pn)) => format!("was accepted and then panicked: {pn}"),
                        Err(e) => format!("was accepted and did not finish: {e}"),
                        _ => s("?"),
                    };
                    out.fail(
                        "accepted_out_of_range",
                        format!("a value outside the documented range ({invalid}) {how}; argv {:?}", &b.argv[1..]),
                    );
                    return out;
                }
            }
            if produced {
                out.fail(
                    "output_despite_refusal",
                    format!("the command was refused ({invalid}) but {} exists", b.out),
                );
            }
            return out;
        }

        // ---- the command line under test
        let cli_out = path_str(&dir.join("cli_out"));
        let b = build_argv(p, &in_cli, alt.as_deref(), &cli_out);
        let r = run_cli(b.argv.clone(), stdin_bytes(stdin), &case.sched, &case.io, None, auto, steps);
        out.absorb(&r, true);
        match &r.value {
            Err(e) => {
                out.fail("hang", format!("command does not finish: {e}; argv {:?}", &b.argv[1..]));
                return out;
            }
            Ok(Err(pn)) => {
                out.fail("panic", format!("command panicked: {pn}; argv {:?}", &b.argv[1..]));
                return out;
            }
            Ok(Ok(CliEnd::ParseError(e))) => {
                out.fail("parse", format!("documented options refused by the parser ({e}); argv {:?}", &b.argv[1..]));
                return out;
            }
            Ok(Ok(CliEnd::Returned)) => {}
        }
        // ---- the library with the setters the options imply
        let lib_out = path_str(&dir.join("lib_out"));
        if let Err(e) = run_library(p, &file_in, alt.as_deref(), &lib_out, &mut out, steps) {
            out.fail("library", e);
            return out;
        }
        for (suffix, ordered) in result_files(p) {
            let a = std::fs::read(format!("{cli_out}{suffix}"));
            let l = std::fs::read(format!("{lib_out}{suffix}"));
            match (a, l) {
                (Ok(a), Ok(l)) => {
                    out.note(&if ordered { a.clone() } else { sorted_lines(&a).concat() });
                    let same = if ordered { a == l } else { sorted_lines(&a) == sorted_lines(&l) };
                    if !same {
                        out.fail(
                            "cli_vs_library",
                            format!(
                                "result{suffix} of the command line ({} bytes) differs from the library called with the implied setters ({} bytes), first difference at byte {}; argv {:?}",
                                a.len(),
                                l.len(),
                                super::c05::first_diff(&a, &l),
                                &b.argv[1..]
                            ),
                        );
                        return out;
                    }
                }
                (a, l) => {
                    out.fail(
                        "cli_vs_library",
                        format!("result{suffix}: produced by the command line = {}, by the library = {}; argv {:?}", a.is_ok(), l.is_ok(), &b.argv[1..]),
                    );
                    return out;
                }
            }
        }
        if pu64(p, "threads") != 1 {
            out.probe("threads_option_vs_one_thread", 1);
        }
        if stdin {
            out.probe("stdin_input", 1);
        }
        if alt.is_some() {
            out.probe("alt_input", 1);
        }
        // ---- related command lines
        let rk = pu64(p, "relation_kind");
        if pbool(p, "relation") && rk >= 1 && (sub == "oligo" || sub == "cov") {
            let mut q = p.clone();
            let suffix = if sub == "cov" { "/kmers.vectors" } else { "" };
            let o2 = path_str(&dir.join("cli_out3"));
            if rk == 1 || sub == "cov" {
                // the presets change only the delimiter
                let other = match pstr(p, "preset").as_str() {
                    "csv" => "tsv",
                    "tsv" => "spc",
                    _ => "csv",
                };
                q.insert(s("preset"), serde_json::json!(other));
                let b2 = build_argv(&q, &in_cli, alt.as_deref(), &o2);
                let r2 = run_cli(b2.argv.clone(), stdin_bytes(stdin), &case.sched, &case.io, None, auto, steps);
                out.absorb(&r2, false);
                if !matches!(r2.value, Ok(Ok(CliEnd::Returned))) {
                    out.fail("relation_run", format!("the related command line failed; argv {:?}", &b2.argv[1..]));
                    return out;
                }
                let fa = std::fs::read(format!("{cli_out}{suffix}")).unwrap_or_default();
                let fb = std::fs::read(format!("{o2}{suffix}")).unwrap_or_default();
                let (d1, d2) = (delim_of(&pstr(p, "preset")).as_bytes()[0], delim_of(other).as_bytes()[0]);
                let mapped: Vec<u8> = fa.iter().map(|&c| if c == d1 { d2 } else { c }).collect();
                if mapped != fb || fa.contains(&d2) {
                    out.fail(
                        "preset_changes_more_than_delimiter",
                        format!(
                            "output with -p {} is not the output with -p {} with the delimiter exchanged (first difference at byte {}); argv {:?}",
                            other,
                            pstr(p, "preset"),
                            super::c05::first_diff(&mapped, &fb),
                            &b.argv[1..]
                        ),
                    );
                    return out;
                }
                out.probe("preset_relation_checked", 1);
            } else {
                // the header flag only adds the column line
                q.insert(s("header"), serde_json::json!(!pbool(p, "header")));
                let b2 = build_argv(&q, &in_cli, alt.as_deref(), &o2);
                let r2 = run_cli(b2.argv.clone(), stdin_bytes(stdin), &case.sched, &case.io, None, auto, steps);
                out.absorb(&r2, false);
                if !matches!(r2.value, Ok(Ok(CliEnd::Returned))) {
                    out.fail("relation_run", format!("the related command line failed; argv {:?}", &b2.argv[1..]));
                    return out;
                }
                let fa = std::fs::read(&cli_out).unwrap_or_default();
                let fb = std::fs::read(&o2).unwrap_or_default();
                let (with, without) = if pbool(p, "header") { (fa, fb) } else { (fb, fa) };
                let d = delim_of(&pstr(p, "preset")).as_bytes()[0];
                let ok = match super::c05::split_first_line(&with) {
                    None => false,
                    Some((h, rest)) => {
                        let cols_h = h.split(|&c| c == d).count();
                        let cols_r = without
                            .split(|&c| c == b'\n')
                            .next()
                            .map(|l| l.split(|&c| c == d).count())
                            .unwrap_or(0);
                        rest == without.as_slice()
                            && (without.is_empty() || cols_h == cols_r)
                            && h.split(|&c| c == d).all(|f| f.len() == pu64(p, "k") as usize && f.iter().all(|c| b"ACGT".contains(c)))
                    }
                };
                if !ok {
                    out.fail(
                        "header_changes_more_than_one_line",
                        format!(
                            "output with -H is not one column line (k-mers separated by the preset's delimiter) followed by the output without -H; argv {:?}",
                            &b.argv[1..]
                        ),
                    );
                    return out;
                }
                out.probe("header_relation_checked", 1);
            }
        } else if pbool(p, "relation") {
            let mut q = p.clone();
            match sub.as_str() {
                "oligo" | "cov" | "kcgr" => {
                    // counts and default output differ exactly by per-row normalisation
                    q.insert(s("counts"), serde_json::json!(!pbool(p, "counts")));
                    let o2 = path_str(&dir.join("cli_out2"));
                    let b2 = build_argv(&q, &in_cli, alt.as_deref(), &o2);
                    let r2 = run_cli(b2.argv.clone(), stdin_bytes(stdin), &case.sched, &case.io, None, auto, steps);
                    out.absorb(&r2, false);
                    if !matches!(r2.value, Ok(Ok(CliEnd::Returned))) {
                        out.fail("relation_run", format!("the related command line failed; argv {:?}", &b2.argv[1..]));
                        return out;
                    }
                    let suffix = if sub == "cov" { "/kmers.vectors" } else { "" };
                    let fa = std::fs::read(format!("{cli_out}{suffix}")).unwrap_or_default();
                    let fb = std::fs::read(format!("{o2}{suffix}")).unwrap_or_default();
                    let (norm_b, raw_b) = if pbool(p, "counts") { (fb, fa) } else { (fa, fb) };
                    let (norm, raw) = if sub == "kcgr" {
                        let f = |b: &[u8]| -> Option<Vec<Vec<f64>>> {
                            let t = std::str::from_utf8(b).ok()?;
                            t.lines().map(|l| parse_tuples(l, 3).ok().map(|v| v.iter().map(|x| x[2]).collect())).collect()
                        };
                        (f(&norm_b), f(&raw_b))
                    } else {
                        let d = delim_of(&pstr(p, "preset"));
                        let skip = if sub == "oligo" && pbool(p, "header") { 1 } else { 0 };
                        (rows_f64(&norm_b, d, skip), rows_f64(&raw_b, d, skip))
                    };
                    match (norm, raw) {
                        (Some(norm), Some(raw)) if norm.len() == raw.len() => {
                            for (i, (nr, rr)) in norm.iter().zip(raw.iter()).enumerate() {
                                let tot: f64 = rr.iter().sum();
                                if nr.len() != rr.len() {
                                    out.fail("counts_vs_default", format!("row {i}: {} vs {} columns", nr.len(), rr.len()));
                                    return out;
                                }
                                for (j, (a, c)) in nr.iter().zip(rr.iter()).enumerate() {
                                    let e = if tot == 0.0 { 0.0 } else { c / tot };
                                    if (a - e).abs() > 5.1e-7 {
                                        out.fail(
                                            "counts_vs_default",
                                            format!("row {i} column {j}: default output {a}, counts output {c} of {tot} (expected {e}); argv {:?}", &b.argv[1..]),
                                        );
                                        return out;
                                    }
                                }
                            }
                            out.probe("counts_vs_default_checked", 1);
                        }
                        _ => {
                            out.fail("counts_vs_default", format!("outputs with and without counts are not comparable tables; argv {:?}", &b.argv[1..]));
                            return out;
                        }
                    }
                }
                "ctr" => {
                    q.insert(s("acgt"), serde_json::json!(!pbool(p, "acgt")));
                    let o2 = path_str(&dir.join("cli_out2"));
                    let b2 = build_argv(&q, &in_cli, None, &o2);
                    let r2 = run_cli(b2.argv.clone(), None, &case.sched, &case.io, None, auto, steps);
                    out.absorb(&r2, false);
                    if !matches!(r2.value, Ok(Ok(CliEnd::Returned))) {
                        out.fail("relation_run", format!("the related command line failed; argv {:?}", &b2.argv[1..]));
                        return out;
                    }
                    let fa = std::fs::read(format!("{cli_out}/kmers.counts")).unwrap_or_default();
                    let fb = std::fs::read(format!("{o2}/kmers.counts")).unwrap_or_default();
                    let (txt, num) = if pbool(p, "acgt") { (fa, fb) } else { (fb, fa) };
                    let k = pu64(p, "k") as usize;
                    let conv = |b: &[u8], numeric: bool| -> Option<Vec<(String, u64)>> {
                        let mut v: Vec<(String, u64)> = parse_counts(b)
                            .ok()?
                            .into_iter()
                            .map(|(key, c)| {
                                if numeric {
                                    key.parse::<u64>().ok().map(|code| (model::kmer_text(code, k), c))
                                } else {
                                    Some((key, c))
                                }
                            })
                            .collect::<Option<Vec<_>>>()?;
                        v.sort();
                        Some(v)
                    };
                    match (conv(&txt, false), conv(&num, true)) {
                        (Some(a), Some(c)) if a == c => out.probe("acgt_vs_numeric_checked", 1),
                        _ => {
                            out.fail(
                                "acgt_vs_numeric",
                                format!("--acgt changes more than the rendering of the k-mers; argv {:?}", &b.argv[1..]),
                            );
                            return out;
                        }
                    }
                }
                _ => {}
            }
        }
        out
    }

    fn required_probes(&self) -> Vec<&'static str> {
        vec![
            "sub_oligo", "sub_cgr", "sub_kcgr", "sub_cov", "sub_ctr", "sub_min",
            "out_of_range_case", "refused_by_parser", "refused_by_cli",
            "threads_option_vs_one_thread", "stdin_input", "alt_input",
            "counts_vs_default_checked", "acgt_vs_numeric_checked",
            "preset_relation_checked", "header_relation_checked",
        ]
    }

    fn real_components(&self) -> Vec<&'static str> {
        vec![
            "kmertools::args (clap declarations, value ranges, cli() option-to-setter wiring), in-process",
            "composition, coverage, counter, misc, kmer, ktio (both through the CLI and called directly)",
        ]
    }

    fn stub_components(&self) -> Vec<&'static str> {
        vec![
            "rayon (contract-level model on shuttle tasks)",
            "std::sync::Mutex / atomics (hook H3)",
            "standard input and delivery of file bytes (hook H1)",
            "main.rs, process exit status and the text of diagnostics are not executed/compared",
        ]
    }

    fn nontrivial_rule(&self) -> &'static str {
        "a case is one subcommand x explicit option values (presets, -c/--counts, -H, -t 0..16, k/m/w/bins/memory inside or one step outside their documented ranges, --acgt, --alt-input, stdin) x input x schedule; non-trivial = at least 2 records AND (an out-of-range value was tried, OR the command ran with -t != 1 and >= 1 scheduling decision among >= 2 runnable tasks); distinct = distinct (workload hash, schedule hash) pairs"
    }

    fn is_nontrivial(&self, case: &Case, out: &Outcome) -> bool {
        case.records.len() >= 2
            && (!case.p_str("invalid").is_empty() || (case.p_u64("threads") != 1 && out.log.choice_steps > 0))
    }
}
