pub mod c05;
pub mod c06;
pub mod c07;
pub mod c08;
pub mod c10;
pub mod c11;
pub mod c12;
pub mod c13;
pub mod c14;
pub mod c15;
pub mod c16;
pub mod c17;

use crate::exec::Engine;

pub fn get(prop: &str) -> Option<&'static dyn Engine> {
    Some(match prop {
        "C05" => &c05::C05,
        "C06" => &c06::C06,
        "C07" => &c07::C07,
        "C08" => &c08::C08,
        "C10" => &c10::C10,
        "C11" => &c11::C11,
        "C12" => &c12::C12,
        "C13" => &c13::C13,
        "C14" => &c14::C14,
        "C15" => &c15::C15,
        "C16" => &c16::C16,
        "C17" => &c17::C17,
        _ => return None,
    })
}
