pub mod c05;
pub mod c06;

use crate::exec::Engine;

pub fn get(prop: &str) -> Option<&'static dyn Engine> {
    Some(match prop {
        "C05" => &c05::C05,
        "C06" => &c06::C06,
        _ => return None,
    })
}
