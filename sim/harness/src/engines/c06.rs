//! C06 -- the reader returns every record once, in order, with exact bases,
//! for every container, however the bytes of the stream are delivered and
//! whoever pulls.

use crate::common::*;
use crate::exec::*;
use crate::gen::*;
use crate::params;
use ktio::seq::{get_reader, SeqFormat, Sequences};
use verif_rt::rng::Rng;
use verif_rt::sync::{Arc, Mutex};

pub struct C06;

type Got = Vec<(usize, usize, String, Vec<u8>)>; // (worker, n, id, seq)

impl Engine for C06 {
    fn prop(&self) -> &'static str {
        "C06"
    }

    fn generate(&self, rng: &mut Rng, tier: &str) -> Case {
        let thorough = tier == "thorough";
        let g = RecGen {
            min_records: 0,
            max_records: if thorough { 400 } else { 200 },
            max_len: if thorough { 6000 } else { 700 },
            marks: vec![0, 1, 2, 60, 61, 120, 8192],
            alpha_w: [30, 20, 15, 25, 3, 5, 2],
            min_len: 0,
            dup_pct: 5,
            tab_desc_pct: 12,
            utf8_id_pct: 15,
            dup_id_pct: 3,
            mega_1_in: 0,
            twin_mega_1_in: 0,
            many_1_in: 1500,
            overflow_top_w: 1,
        };
        let mut records = g.gen(rng);
        // sometimes a few very long records so that lines straddle the 8 KiB
        // buffers of both BufReaders
        if rng.chance(1, 6) && !records.is_empty() {
            let i = rng.usize(0, records.len() - 1);
            let len = rng.usize(8000, if thorough { 40000 } else { 17000 });
            records[i].seq = gen_seq(rng, len, Alpha::Mixed);
        }
        let mut container = gen_container(rng, &records, true, true);
        // very rarely a file of more than 4 MiB on disk (4.3 - 5.3 MB of sequence): file
        // size is what "large input" switches in a reader key on.  For the compressed size
        // to pass 4 MiB too, a gzip container of this stratum stores (level 0) half the time.
        if rng.chance(1, 9000) {
            let n = rng.usize(70, 85);
            let alpha = if rng.chance(1, 2) { Alpha::Clean } else { Alpha::Mixed };
            records = (0..n)
                .map(|i| {
                    let len = rng.usize(58_000, 66_000);
                    Rec { id: gen_id(rng, i), desc: gen_desc(rng), seq: gen_seq(rng, len, alpha) }
                })
                .collect();
            container = gen_container(rng, &records, true, true);
            if let Some(gz) = container.gz.as_mut() {
                if rng.chance(1, 2) {
                    gz.level = 0;
                }
            }
        }
        let io = gen_io(rng, true);
        let workers = if rng.chance(1, 2) { 0 } else { rng.usize(2, 8) };
        let sched = Sched::draw(rng, 4 * records.len() as u64 + 8);
        Case {
            prop: "C06".into(),
            tier: tier.into(),
            verif_seed: 0,
            index: 0,
            run_seed: 0,
            records,
            container,
            io,
            sched,
            params: params! {"workers" => workers, "reread" => rng.chance(1, 6)},
            extra: vec![],
        }
    }

    fn execute(&self, case: &Case, sb: &Sandbox) -> Outcome {
        let mut out = Outcome::default();
        let dir = sb.fresh("c06");
        let path = write_input(&dir, "in", &case.records, &case.container);
        let workers = case.p_usize("workers");
        let expect_fmt = case.container.format.clone();
        let p2 = path.clone();
        let r = sim(
            &case.sched,
            &case.io,
            None,
            None,
            4,
            steps_for(case),
            move || -> Result<(Got, usize, usize, bool), String> {
                let fmt = SeqFormat::get(&p2).ok_or_else(|| "format not inferred from suffix".to_string())?;
                let fmt_ok = matches!(
                    (&fmt, &expect_fmt),
                    (SeqFormat::Fasta, Format::Fasta) | (SeqFormat::Fastq, Format::Fastq)
                );
                let reader = get_reader(&p2)?;
                let seqs = Sequences::new(fmt, reader)?;
                let mut got: Got = Vec::new();
                if workers == 0 {
                    for s in seqs {
                        got.push((0, s.n, s.id, s.seq));
                    }
                } else {
                    let shared = Arc::new(Mutex::new(seqs));
                    let mut hs = Vec::new();
                    for w in 0..workers {
                        let sh = Arc::clone(&shared);
                        hs.push(shuttle::thread::spawn(move || {
                            let mut mine = Vec::new();
                            loop {
                                let rec = { sh.lock().unwrap().next() };
                                match rec {
                                    Some(s) => mine.push((w, s.n, s.id, s.seq)),
                                    None => break,
                                }
                            }
                            mine
                        }));
                    }
                    for h in hs {
                        got.extend(h.join().map_err(|_| "puller panicked".to_string())?);
                    }
                }
                // the statistics pass, on a second reader
                let reader = get_reader(&p2)?;
                let st = Sequences::seq_stats(fmt, reader);
                Ok((got, st.seq_count, st.total_length, fmt_ok))
            },
        );
        out.absorb(&r, true);
        let n = case.records.len();
        match r.value {
            Err(e) => out.fail("exec", format!("execution failed: {e}")),
            Ok(Err(p)) => out.fail("panic", format!("reader panicked: {p}")),
            Ok(Ok(Err(e))) => out.fail("error", format!("reader returned an error: {e}")),
            Ok(Ok(Ok((mut got, cnt, total, fmt_ok)))) => {
                if !fmt_ok {
                    out.fail("format", format!("wrong format inferred for {}", path));
                }
                // per-worker order
                let mut last: std::collections::BTreeMap<usize, usize> = Default::default();
                for (w, nn, _, _) in got.iter() {
                    if let Some(prev) = last.get(w) {
                        if nn <= prev {
                            out.fail("order", format!("worker {w} saw n={nn} after n={prev}"));
                        }
                    }
                    last.insert(*w, *nn);
                }
                if last.len() > 1 {
                    out.probe("several_workers_got_records", 1);
                }
                got.sort_by_key(|g| g.1);
                for g in got.iter() {
                    out.note(format!("{} {} {}", g.0, g.1, g.2).as_bytes());
                    out.note(&g.3);
                }
                if got.len() != n {
                    out.fail(
                        "count",
                        format!("{} records delivered, {} in the file ({})", got.len(), n, case.container.describe()),
                    );
                }
                for (i, (_, nn, id, seq)) in got.iter().enumerate() {
                    if *nn != i {
                        out.fail("numbering", format!("position {i} carries n={nn}"));
                        break;
                    }
                    if let Some(e) = case.records.get(i) {
                        if *id != e.id {
                            out.fail("id", format!("record {i}: id {:?}, expected {:?}", id, e.id));
                            break;
                        }
                        if seq.as_slice() != e.seq.as_bytes() {
                            out.fail(
                                "bases",
                                format!(
                                    "record {i}: {} bases delivered, {} expected; got {:?} expected {:?}",
                                    seq.len(),
                                    e.seq.len(),
                                    clip(&String::from_utf8_lossy(seq), 80),
                                    clip(&e.seq, 80)
                                ),
                            );
                            break;
                        }
                    }
                }
                let tot: usize = case.records.iter().map(|r| r.seq.len()).sum();
                if cnt != n || total != tot {
                    out.fail(
                        "stats",
                        format!("seq_stats = ({cnt}, {total}), file holds ({n}, {tot}) ({})", case.container.describe()),
                    );
                }
            }
        }
        // the same path rewritten with other content of the same shape (same ids and
        // lengths => same file size, same compressed size for stored blocks) and
        // read again in the same process: the reader must deliver the new content
        if out.violation.is_none() && case.params.get("reread").and_then(|v| v.as_bool()).unwrap_or(false) && n > 0 {
            let rec2: Vec<Rec> = case
                .records
                .iter()
                .map(|r| Rec {
                    id: r.id.clone(),
                    desc: r.desc.clone(),
                    seq: r
                        .seq
                        .chars()
                        .map(|c| match c {
                            'A' => 'C',
                            'C' => 'G',
                            'G' => 'T',
                            'T' => 'A',
                            'a' => 'c',
                            'c' => 'g',
                            'g' => 't',
                            't' => 'a',
                            x => x,
                        })
                        .collect(),
                })
                .collect();
            let path2 = write_input(&dir, "in", &rec2, &case.container);
            let p3 = path2.clone();
            let r2 = sim(&Sched::fifo(), &IoSpec::off(), None, None, 1, steps_for(case), move || -> Result<Vec<Vec<u8>>, String> {
                let fmt = SeqFormat::get(&p3).ok_or_else(|| "format not inferred".to_string())?;
                let reader = get_reader(&p3)?;
                Ok(Sequences::new(fmt, reader)?.map(|s| s.seq).collect())
            });
            out.absorb(&r2, false);
            out.probe("path_rewritten_and_reread", 1);
            match r2.value {
                Ok(Ok(Ok(seqs))) => {
                    let want: Vec<&[u8]> = rec2.iter().map(|r| r.seq.as_bytes()).collect();
                    let got: Vec<&[u8]> = seqs.iter().map(|s| s.as_slice()).collect();
                    if got != want {
                        out.fail(
                            "stale_read",
                            format!(
                                "after the file at the same path was rewritten (same ids and lengths, other bases) the reader still delivers {} ({})",
                                if seqs.iter().map(|s| s.as_slice()).eq(case.records.iter().map(|r| r.seq.as_bytes())) { "the OLD content" } else { "something else" },
                                case.container.describe()
                            ),
                        );
                    }
                }
                other => out.fail("reread", format!("second read of the rewritten path failed: {:?}", other.map(|x| x.map(|y| y.map(|_| ())))))
            }
        }
        if let Some(g) = &case.container.gz {
            out.probe("gzip", 1);
            if crate::common::gzip_members(&path) > 1 {
                out.probe("gzip_multi_member", 1);
            }
            if g.level == 0 {
                out.probe("gzip_stored_blocks", 1);
            }
        }
        if case.container.crlf {
            out.probe("crlf", 1);
        }
        if !case.container.final_newline {
            out.probe("no_final_newline", 1);
        }
        if case.records.iter().any(|r| r.seq.is_empty()) {
            out.probe("empty_record", 1);
        }
        if case.records.iter().any(|r| r.seq.len() > 8192) {
            out.probe("line_longer_than_bufreader", 1);
        }
        if n == 0 {
            out.probe("empty_file", 1);
        }
        out
    }

    fn required_probes(&self) -> Vec<&'static str> {
        vec![
            "gzip",
            "gzip_multi_member",
            "crlf",
            "no_final_newline",
            "empty_record",
            "several_workers_got_records",
            "path_rewritten_and_reread",
        ]
    }

    fn real_components(&self) -> Vec<&'static str> {
        vec![
            "ktio::seq (get_reader, Sequences, SeqFormat, seq_stats)",
            "bio::io::{fasta,fastq}",
            "flate2 gzip decoder",
            "std::io::BufReader x2",
            "std::fs (sandbox files)",
        ]
    }

    fn nontrivial_rule(&self) -> &'static str {
        "a case is a record list x container x delivery plan x puller configuration x schedule; non-trivial = at least 2 records AND (at least one short read or EINTR was actually injected, OR at least 2 pullers raced with >= 1 scheduling decision among >= 2 runnable tasks); distinct = distinct (workload hash, schedule hash) pairs"
    }

    fn is_nontrivial(&self, case: &Case, out: &Outcome) -> bool {
        case.records.len() >= 2
            && (out.stats.short_reads + out.stats.eintr > 0
                || (case.p_usize("workers") >= 2 && out.log.choice_steps > 0))
    }
}
