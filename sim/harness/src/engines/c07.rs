//! C07 -- k-mer counting is exact and independent of threads, chunking and
//! partitioning, for every interleaving of the workers.

use crate::common::*;
use crate::exec::*;
use crate::gen::*;
use crate::model;
use crate::params;
use crate::pipelines::*;
use std::collections::BTreeMap;
use verif_rt::rng::Rng;

pub struct C07;

pub fn gen_count_case(rng: &mut Rng, tier: &str, prop: &str) -> Case {
    let thorough = tier == "thorough";
    let k = match rng.weighted(&[30, 30, 25, 15]) {
        0 => rng.usize(1, 4),
        1 => rng.usize(5, 12),
        2 => rng.usize(13, 27),
        _ => rng.usize(28, 31),
    };
    let g = RecGen {
        min_records: 0,
        max_records: if thorough { 120 } else { 40 },
        max_len: if thorough { 900 } else { 300 },
        marks: vec![k.saturating_sub(1), k, k + 1, 2 * k],
        // repetitive content makes all workers hit the same key
        alpha_w: [35, 15, 12, 8, 12, 16, 2],
        min_len: 0,
        dup_pct: 15,
            tab_desc_pct: 0,
            utf8_id_pct: 0,
            dup_id_pct: 0,
            mega_1_in: 0,
            twin_mega_1_in: 40000,
            many_1_in: 1500,
            overflow_top_w: 1,
    };
    let records = g.gen(rng);
    let total: usize = records.iter().map(|r| r.seq.len()).sum();
    let threads = gen_threads(rng);
    // per-chunk limit in bases: 1 chunk ... dozens of chunks (and, through the
    // sizing rule, 1 ... dozens of partitions)
    let lo = (total as u64 / if thorough { 120 } else { 40 }).max(1);
    let limit = match rng.weighted(&[30, 20, 25, 25]) {
        0 => 750_000_000u64, // the default 6 GB: one chunk
        1 => (total as u64).max(1),
        2 => rng.range(lo, (total as u64 / 3).max(lo)),
        _ => rng.range(lo, (total as u64).max(lo)),
    };
    let container = gen_container(rng, &records, false, true);
    let sched = Sched::draw(rng, 3 * total as u64 + 10 * records.len() as u64 + 16);
    Case {
        prop: prop.into(),
        tier: tier.into(),
        verif_seed: 0,
        index: 0,
        run_seed: 0,
        records,
        container,
        io: gen_io(rng, false),
        sched,
        params: params! {
            "k" => k,
            "threads" => threads,
            "gb" => CountCfg::gb_for_limit(limit),
            "limit" => limit,
            "acgt" => rng.chance(1, 3),
            "delete" => !rng.chance(1, 4),
            "order" => if rng.chance(1, 2) { 0 } else { rng.range(1, 1 << 40) },
            // seed of junk left in the output directory before the run (0 = clean)
            "dirty" => if rng.chance(1, 6) { rng.range(1, 1 << 40) } else { 0 },
        },
        extra: vec![],
    }
}

/// Compare a counts table with the model.  `acgt`: keys are text.
pub fn check_counts(
    out: &mut Outcome,
    bytes: &[u8],
    expected: &BTreeMap<u64, u64>,
    k: usize,
    acgt: bool,
    what: &str,
) {
    let lines = match parse_counts(bytes) {
        Ok(l) => l,
        Err(e) => {
            out.fail("counts_format", format!("{what}: {e}"));
            return;
        }
    };
    let mut got: BTreeMap<String, Vec<u64>> = BTreeMap::new();
    for (key, c) in lines {
        got.entry(key).or_default().push(c);
    }
    let exp: BTreeMap<String, u64> = expected
        .iter()
        .map(|(&code, &c)| {
            (
                if acgt { model::kmer_text(code, k) } else { code.to_string() },
                c,
            )
        })
        .collect();
    for (key, cs) in &got {
        if cs.len() > 1 {
            out.fail(
                "duplicate_key",
                format!("{what}: k-mer {key} appears on {} lines (counts {:?})", cs.len(), cs),
            );
            return;
        }
        match exp.get(key) {
            None => {
                out.fail("foreign_key", format!("{what}: k-mer {key} (count {}) does not occur in the input", cs[0]));
                return;
            }
            Some(&e) if e != cs[0] => {
                out.fail("wrong_count", format!("{what}: k-mer {key} has count {}, expected {e}", cs[0]));
                return;
            }
            _ => {}
        }
    }
    for (key, e) in &exp {
        if !got.contains_key(key) {
            out.fail("missing_key", format!("{what}: k-mer {key} (expected count {e}) is missing"));
            return;
        }
    }
    let sum: u64 = got.values().map(|v| v[0]).sum();
    let esum: u64 = expected.values().sum();
    if sum != esum {
        out.fail("sum", format!("{what}: counts sum to {sum}, the input has {esum} valid windows"));
    }
}

impl Engine for C07 {
    fn prop(&self) -> &'static str {
        "C07"
    }

    fn generate(&self, rng: &mut Rng, tier: &str) -> Case {
        gen_count_case(rng, tier, "C07")
    }

    fn execute(&self, case: &Case, sb: &Sandbox) -> Outcome {
        let mut out = Outcome::default();
        let dir = sb.fresh("c07");
        let cfg = CountCfg::from_params(&case.params);
        let in_path = write_input(&dir, "in", &case.records, &case.container);
        let out_dir = dir.join("out");
        std::fs::create_dir_all(&out_dir).unwrap();
        // "... and nothing else" must hold whatever an earlier count left in the
        // directory: sometimes start from stale chunk files and a stale table
        let dirty = case.params.get("dirty").and_then(|v| v.as_u64()).unwrap_or(0);
        let parts = cfg.expected_parts(case.records.iter().map(|x| x.seq.len()).sum()) + 2;
        // (only computed when needed: the k-mers of the first few records)
        let real: Vec<u64> = if dirty != 0 {
            case.records.iter().take(8).flat_map(|r| model::canonical_kmers(r.seq.as_bytes(), cfg.k).into_iter().take(64)).collect()
        } else {
            Vec::new()
        };
        if stale_counter_files(&out_dir, dirty, parts, cfg.k, &real) {
            out.probe("dirty_output_directory", 1);
        }
        let r = run_counter(&in_path, &out_dir, &cfg, &case.sched, &case.io, None, steps_for(case));
        out.absorb(&r, true);
        match &r.value {
            Err(e) => {
                out.fail("exec", format!("count/merge did not finish (deadlock or step budget): {e}"));
                return out;
            }
            Ok(Err(p)) => {
                out.fail("panic", format!("count/merge panicked: {p}"));
                return out;
            }
            Ok(Ok(())) => {}
        }
        let expected = model::count_kmers(case.records.iter().map(|r| r.seq.as_bytes()), cfg.k);
        let listing = list_dir(&out_dir);
        match std::fs::read(out_dir.join("kmers.counts")) {
            Err(_) => out.fail("no_output", format!("kmers.counts missing; directory holds {:?}", listing)),
            Ok(bytes) => {
                out.note(&{
                    let mut l: Vec<&[u8]> = bytes.split(|&b| b == b'\n').collect();
                    l.sort();
                    l.concat()
                });
                check_counts(&mut out, &bytes, &expected, cfg.k, cfg.acgt, "kmers.counts");
            }
        }
        let temps: Vec<&String> = listing.iter().filter(|n| n.starts_with("temp_kmers")).collect();
        if cfg.delete && !temps.is_empty() && dirty == 0 {
            out.fail(
                "temp_left",
                format!("{} temporary chunk files survive merge(delete=true), e.g. {}", temps.len(), temps[0]),
            );
        }
        // reach probes
        let total: usize = case.records.iter().map(|r| r.seq.len()).sum();
        let parts = cfg.expected_parts(total);
        let chunk_files = out.stats.points.get("map_scan").copied().unwrap_or(0);
        let _ = chunk_files;
        if !cfg.delete {
            let chunks: std::collections::BTreeSet<&str> = temps
                .iter()
                .filter_map(|n| n.rsplit("_chunk_").next())
                .collect();
            if chunks.len() >= 2 {
                out.probe("chunks>=2(kept)", 1);
            }
            if chunks.len() >= 8 {
                out.probe("chunks>=8(kept)", 1);
            }
        }
        if cfg.limit() < total as u64 {
            out.probe("limit_below_input", 1);
        }
        if parts > cfg.threads as u64 {
            out.probe("partitions_from_memory_rule", 1);
        }
        if parts >= 8 {
            out.probe("partitions>=8", 1);
        }
        if expected.values().any(|&c| c >= 8) && cfg.threads >= 2 {
            out.probe("same_kmer_contended", 1);
        }
        if cfg.acgt {
            out.probe("acgt_rendering", 1);
        }
        if cfg.threads > case.records.len() {
            out.probe("more_workers_than_records", 1);
        }
        out
    }

    fn required_probes(&self) -> Vec<&'static str> {
        vec![
            "chunks>=2(kept)",
            "limit_below_input",
            "partitions_from_memory_rule",
            "partitions>=8",
            "same_kmer_contended",
            "acgt_rendering",
            "dirty_output_directory",
        ]
    }

    fn real_components(&self) -> Vec<&'static str> {
        vec![
            "counter::CountComputer (count, count_chunk, merge, init)",
            "scc::HashMap (real bucket/epoch code behind per-operation scheduling points)",
            "ktio::seq, ktio::fops, kmer::kmer::KmerGenerator",
            "indicatif progress bars (real; their clock never feeds results)",
            "std::fs temp/partition files on a private tmpfs directory",
        ]
    }

    fn nontrivial_rule(&self) -> &'static str {
        "a case is records x container x delivery plan x (k, threads, memory ceiling => chunks/partitions, acgt, delete) x schedule; non-trivial = at least 2 records with at least one valid window AND at least one scheduling decision among >= 2 runnable tasks; distinct = distinct (workload hash, schedule hash) pairs"
    }

    fn is_nontrivial(&self, case: &Case, out: &Outcome) -> bool {
        case.records.len() >= 2
            && case.records.iter().any(|r| r.seq.len() >= case.p_usize("k"))
            && out.log.choice_steps > 0
    }
}
