//! C14 -- unchecked indexing and memory-mapped writes always stay inside their
//! buffers.  Two detectors: (1) the write monitor behind MMWriter::write_at
//! (hook H2) evaluated while the run proceeds, (2) the standard library's UB
//! precondition checks, compiled into the kmertools crates by the simulation
//! profile -- a violated `get_unchecked` / `copy_nonoverlapping` precondition
//! aborts the worker process, which the supervisor attributes to the run.

use crate::common::*;
use crate::exec::*;
use crate::gen::*;
use crate::params;
use crate::pipelines::*;
use verif_rt::rng::Rng;

pub struct C14;

const DELIMS: &[&str] = &[
    "", ",", "\t", " ", ", ", "::", " | ", "\u{e9}", "\u{2192}", ";;;;", "----------", " <-sep-> <-sep-> ",
];

fn kcount(k: usize) -> usize {
    let n = 1usize << (2 * k);
    if k % 2 == 0 {
        (n + (1usize << k)) / 2
    } else {
        n / 2
    }
}

impl Engine for C14 {
    fn prop(&self) -> &'static str {
        "C14"
    }

    fn generate(&self, rng: &mut Rng, tier: &str) -> Case {
        let thorough = tier == "thorough";
        let pipeline = *rng.pick(&[
            "oligo_mmap", "oligo_mmap", "oligo_mmap", "oligo_mmap", "oligo_mmap", "oligo_mmap",
            "oligo_batch", "oligocgr", "cov", "cov", "ctr",
        ]);
        match pipeline {
            "oligo_mmap" | "oligo_batch" => {
                let mut c = super::c05::gen_oligo_case(rng, tier, "C14");
                let k = if thorough {
                    *rng.pick(&[1usize, 2, 3, 4, 4, 5, 6, 7, 8])
                } else {
                    *rng.pick(&[1usize, 2, 3, 3, 4, 4, 5, 6])
                };
                if k >= 6 {
                    c.records.truncate(if k >= 7 { 3 } else { 8 });
                }
                c.params.insert("k".into(), serde_json::json!(k));
                c.params.insert("delim".into(), serde_json::json!(*rng.pick(DELIMS)));
                let mmap = pipeline == "oligo_mmap";
                c.params.insert("norm".into(), serde_json::json!(mmap));
                c.params.insert("stdin".into(), serde_json::json!(false));
                if c.container.gz.is_none() && !mmap && rng.chance(1, 3) {
                    c.params.insert("stdin".into(), serde_json::json!(true));
                }
                c.params.insert("pipeline".into(), serde_json::json!(pipeline));
                c
            }
            "oligocgr" => {
                let k = if thorough { rng.usize(1, 8) } else { rng.usize(1, 6) };
                let mut c = super::c11::gen_cgr_case(rng, tier, "C14", k);
                if k >= 7 {
                    c.records.truncate(3);
                }
                c.params.insert("pipeline".into(), serde_json::json!(pipeline));
                c
            }
            "cov" => {
                let mut c = super::c08::gen_cov_case(rng, tier, "C14");
                // extreme multiplicities against few, narrow bins
                if rng.chance(1, 2) {
                    let n = c.records.len();
                    for r in c.records.iter_mut().take(n / 2 + 1) {
                        let l = r.seq.len().max(40);
                        let a = if rng.chance(1, 2) { Alpha::Homopolymer } else { Alpha::Repeat };
                        r.seq = gen_seq(rng, l, a);
                    }
                    c.params.insert("bin_size".into(), serde_json::json!(rng.usize(1, 3)));
                    c.params.insert("bin_count".into(), serde_json::json!(rng.usize(1, 3)));
                }
                c.params.insert("pipeline".into(), serde_json::json!(pipeline));
                c
            }
            _ => {
                let mut c = super::c07::gen_count_case(rng, tier, "C14");
                c.params.insert("pipeline".into(), serde_json::json!("ctr"));
                c
            }
        }
    }

    fn execute(&self, case: &Case, sb: &Sandbox) -> Outcome {
        let mut out = Outcome::default();
        let dir = sb.fresh("c14");
        let pipeline = case.p_str("pipeline");
        out.probe(&format!("pipeline_{pipeline}"), 1);
        let steps = steps_for(case);
        match pipeline.as_str() {
            "oligo_mmap" | "oligo_batch" => {
                let cfg = OligoCfg::from_params(&case.params);
                let out_path = dir.join("out.kmers");
                let (r, ro) = run_oligo(
                    &dir, "in", &case.records, &case.container, &cfg, &case.sched, &case.io, None, steps, &out_path,
                );
                out.absorb(&r, true);
                if let Some(v) = &r.ctx.mmap_violation {
                    out.fail(
                        if v.contains("out of range") { "mmap_out_of_range" } else { "mmap_overlap" },
                        format!(
                            "{v} (k={}, delimiter {:?} of {} bytes, header={}, records={}, threads={})",
                            cfg.k,
                            cfg.delim,
                            cfg.delim.len(),
                            cfg.header,
                            case.records.len(),
                            cfg.threads
                        ),
                    );
                    return out;
                }
                if let Some(e) = ro.exec_error {
                    out.fail("exec", format!("execution failed: {e}"));
                    return out;
                }
                if pipeline == "oligo_mmap" {
                    if !matches!(ro.status, Ok(Ok(()))) {
                        // a panic or error that is not a monitor verdict belongs to
                        // other properties (C05/C16); nothing to say here
                        out.probe("run_ended_abnormally", 1);
                        return out;
                    }
                    let dl = cfg.delim.len();
                    let n = case.records.len();
                    let file = ro.output.unwrap_or_default();
                    out.note(&file);
                    // geometry from the file itself: [one header line] + n rows of
                    // one common length (the property: file size = header length +
                    // records x row length), whatever the number format is
                    let header_len = if cfg.header {
                        match file.iter().position(|&b| b == b'\n') {
                            Some(p) => p + 1,
                            None => {
                                out.fail("file_size", format!("header requested but the mapped file ({} bytes) holds no complete first line", file.len()));
                                return out;
                            }
                        }
                    } else {
                        0
                    };
                    let body = &file[header_len..];
                    let row_len = match body.iter().position(|&b| b == b'\n') {
                        Some(p) => p + 1,
                        None => 0,
                    };
                    let kc = kcount(cfg.k);
                    let want = header_len + n * row_len;
                    let fields_ok = row_len == 0
                        || body[..row_len - 1].len() >= kc + (kc - 1) * dl;
                    if file.len() != want || (n > 0 && row_len == 0) || !fields_ok {
                        out.fail(
                            "file_size",
                            format!(
                                "mapped file has {} bytes; header ({header_len}) + {n} records x row length ({row_len}) = {want} (k={}, delimiter {:?} of {dl} bytes)",
                                file.len(),
                                cfg.k,
                                cfg.delim
                            ),
                        );
                        return out;
                    }
                    if n > 0 && body.chunks(row_len).any(|r| r.last() != Some(&b'\n') || r[..row_len - 1].contains(&b'\n')) {
                        out.fail(
                            "file_size",
                            format!("rows of the mapped file do not all have the length of the first one ({row_len} bytes; k={}, delimiter {:?})", cfg.k, cfg.delim),
                        );
                        return out;
                    }
                    let log = r.ctx.maps.last();
                    let gaps = log.map(|l| l.gaps(file.len())).unwrap_or_else(|| if file.is_empty() { vec![] } else { vec![(0, file.len())] });
                    if let Some(g) = gaps.first() {
                        out.fail(
                            "unwritten_bytes",
                            format!("bytes [{},{}) of the mapped file were never written ({} gaps; k={}, delimiter {:?})", g.0, g.1, gaps.len(), cfg.k, cfg.delim),
                        );
                        return out;
                    }
                    if let Some(p) = file.iter().position(|&b| b == 0) {
                        out.fail("nul_byte", format!("NUL byte at offset {p} of the output"));
                        return out;
                    }
                    if let Some(l) = log {
                        out.probe("mmap_writes_checked", l.writes.len() as u64);
                    }
                    if dl != 1 {
                        out.probe("delimiter_not_1_byte", 1);
                    }
                    if cfg.header {
                        out.probe("header_on", 1);
                    }
                }
            }
            "oligocgr" => {
                let cfg = CgrCfg::from_params(&case.params);
                let out_path = dir.join("out.cgr");
                let (r, _ro) = run_cgr(
                    &dir, "in", &case.records, &case.container, &cfg, &case.sched, &case.io, None, steps, &out_path,
                );
                out.absorb(&r, true);
            }
            "cov" => {
                let cfg = CovCfg::from_params(&case.params);
                let in_path = write_input(&dir, "in", &case.records, &case.container);
                let alt_path = case.extra.first().map(|e| write_input(&dir, "alt", &e.records, &e.container));
                let out_dir = dir.join("out");
                std::fs::create_dir_all(&out_dir).unwrap();
                let r = run_cov(&in_path, alt_path.as_deref(), &out_dir, &cfg, &case.sched, &case.io, None, steps);
                out.absorb(&r, true);
            }
            _ => {
                let cfg = CountCfg::from_params(&case.params);
                let in_path = write_input(&dir, "in", &case.records, &case.container);
                let out_dir = dir.join("out");
                std::fs::create_dir_all(&out_dir).unwrap();
                let r = run_counter(&in_path, &out_dir, &cfg, &case.sched, &case.io, None, steps);
                out.absorb(&r, true);
            }
        }
        // reaching this point means no UB precondition fired (it would have
        // aborted the process) and the write monitor stayed silent
        out.probe("runs_with_ub_checks_armed", 1);
        out
    }

    fn required_probes(&self) -> Vec<&'static str> {
        vec![
            "pipeline_oligo_mmap",
            "pipeline_oligo_batch",
            "pipeline_oligocgr",
            "pipeline_cov",
            "pipeline_ctr",
            "mmap_writes_checked",
            "delimiter_not_1_byte",
            "header_on",
        ]
    }

    fn real_components(&self) -> Vec<&'static str> {
        vec![
            "ktio::mmap::MMWriter over a real memmap2 mapping (every write_at observed by the monitor before the copy)",
            "composition::{oligo, oligocgr}, coverage, counter (all get_unchecked sites, compiled with UB precondition checks)",
            "ktio::seq, kmer, scc, std::fs",
        ]
    }

    fn nontrivial_rule(&self) -> &'static str {
        "a case is one pipeline (oligo mmap / oligo batch / k-mer CGR / coverage / counter) x records x settings (k up to 8 resp. 31, delimiters of 0..4 bytes incl. multi-byte UTF-8, header, bins from 1, extreme multiplicities, threads 1..16) x schedule; non-trivial = at least one record with a valid window AND (a mmap write was checked OR an unchecked-index site executed under armed UB checks) AND at least one scheduling decision among >= 2 runnable tasks; distinct = distinct (workload hash, schedule hash) pairs"
    }

    fn is_nontrivial(&self, case: &Case, out: &Outcome) -> bool {
        let k = case.p_usize("k").max(1);
        case.records.iter().any(|r| r.seq.len() >= k) && out.log.choice_steps > 0
    }
}
