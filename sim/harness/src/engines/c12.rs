//! C12 -- k-mer CGR pairs each canonical k-mer's CGR position with its oligo
//! frequency; rows in input order for every thread count and batch limit.

use crate::common::*;
use crate::exec::*;
use crate::gen::*;
use crate::model;
use crate::pipelines::*;
use verif_rt::rng::Rng;

pub struct C12;

/// Canonical k-mers in increasing code order (the column order of the property).
pub fn canonical_columns(k: usize) -> Vec<u64> {
    let n = 1u64 << (2 * k);
    let mut v = Vec::new();
    for code in 0..n {
        let mut rc = 0u64;
        for i in 0..k {
            rc |= (3 - ((code >> (2 * i)) & 3)) << (2 * (k - 1 - i));
        }
        if code <= rc {
            v.push(code);
        }
    }
    v
}

impl Engine for C12 {
    fn prop(&self) -> &'static str {
        "C12"
    }

    fn generate(&self, rng: &mut Rng, tier: &str) -> Case {
        let k = if tier == "thorough" {
            *rng.pick(&[1usize, 2, 3, 3, 4, 4, 5, 6, 7])
        } else {
            *rng.pick(&[1usize, 2, 3, 3, 4, 4, 5, 6])
        };
        let mut case = super::c11::gen_cgr_case(rng, tier, "C12", k);
        // very rarely one record beyond 2^24 bases (see `gen_huge_seq`); the k-mer CGR row
        // has a fixed number of columns, so the output stays small
        if k <= 5 && !case.records.is_empty() && rng.chance(1, 16000) {
            case.records.truncate(3);
            let i = rng.usize(0, case.records.len() - 1);
            case.records[i].seq = gen_huge_seq(rng);
        }
        case
    }

    fn execute(&self, case: &Case, sb: &Sandbox) -> Outcome {
        let mut out = Outcome::default();
        let dir = sb.fresh("c12");
        let cfg = CgrCfg::from_params(&case.params);
        let out_path = dir.join("out.cgr");
        if stale_output(&out_path, case.params.get("stale").and_then(|v| v.as_u64()).unwrap_or(0)) {
            out.probe("stale_output_file", 1);
        }
        let (r, ro) = run_cgr(
            &dir,
            "in",
            &case.records,
            &case.container,
            &cfg,
            &case.sched,
            &case.io,
            None,
            steps_for(case),
            &out_path,
        );
        out.absorb(&r, true);
        if let Some(e) = ro.exec_error {
            out.fail("exec", format!("execution failed (deadlock or step budget): {e}"));
            return out;
        }
        match &ro.status {
            Err(p) => {
                out.fail("panic", format!("vectorise panicked: {p}"));
                return out;
            }
            Ok(Err(e)) => {
                out.fail("error", format!("vectorise returned Err: {e}"));
                return out;
            }
            Ok(Ok(())) => {}
        }
        let bytes = ro.output.unwrap_or_default();
        out.note(&bytes);
        let text = match std::str::from_utf8(&bytes) {
            Ok(t) => t,
            Err(_) => {
                out.fail("format", "output is not UTF-8".into());
                return out;
            }
        };
        if !text.is_empty() && !text.ends_with('\n') {
            out.fail("format", "output does not end with a newline".into());
            return out;
        }
        let lines: Vec<&str> = text.lines().collect();
        if lines.len() != case.records.len() {
            out.fail("row_count", format!("{} rows for {} records", lines.len(), case.records.len()));
            return out;
        }
        let k = cfg.k;
        let s = cfg.vecsize as f64;
        let cols = canonical_columns(k);
        // chaos-game end point of every column's text, exact
        let ends: Vec<(f64, f64)> = cols
            .iter()
            .map(|&c| {
                let t = model::kmer_text(c, k);
                let p = model::cgr_points_exact(t.as_bytes(), 64).unwrap();
                let &(xn, yn, sh) = p.last().unwrap();
                (model::dyadic_to_f64(xn, sh, s), model::dyadic_to_f64(yn, sh, s))
            })
            .collect();
        for (i, line) in lines.iter().enumerate() {
            let tr = match parse_tuples(line, 3) {
                Ok(t) => t,
                Err(e) => {
                    out.fail("format", format!("row {i}: {e}"));
                    return out;
                }
            };
            if tr.len() != cols.len() {
                out.fail(
                    "columns",
                    format!("row {i} has {} triples, k={k} has {} canonical k-mers", tr.len(), cols.len()),
                );
                return out;
            }
            let km = model::canonical_kmers(case.records[i].seq.as_bytes(), k);
            let total = km.len() as f64;
            let mut cnt = std::collections::BTreeMap::new();
            for c in km {
                *cnt.entry(c).or_insert(0u64) += 1;
            }
            if total == 0.0 {
                out.probe("record_without_window", 1);
            }
            for (c, t) in tr.iter().enumerate() {
                if t[0] != ends[c].0 || t[1] != ends[c].1 {
                    out.fail(
                        "position",
                        format!(
                            "row {i} column {c} ({}): position ({},{}) but the chaos-game end point at S={} is ({},{})",
                            model::kmer_text(cols[c], k),
                            t[0],
                            t[1],
                            cfg.vecsize,
                            ends[c].0,
                            ends[c].1
                        ),
                    );
                    return out;
                }
                let n = cnt.get(&cols[c]).copied().unwrap_or(0) as f64;
                let ok = if cfg.norm {
                    let e = if total == 0.0 { 0.0 } else { n / total };
                    (t[2] - e).abs() <= 1e-12
                } else {
                    t[2] == n
                };
                if !ok {
                    out.fail(
                        "frequency",
                        format!(
                            "row {i} column {c} ({}): f={} but the record has {} of {} windows there (norm={}, threads={}, memory={})",
                            model::kmer_text(cols[c], k),
                            t[2],
                            n,
                            total,
                            cfg.norm,
                            cfg.threads,
                            cfg.memory
                        ),
                    );
                    return out;
                }
            }
        }
        if out.stats.par_batches >= 3 {
            out.probe("batches>=3", 1);
        }
        if cfg.stdin {
            out.probe("stdin_input", 1);
        }
        if !cfg.norm {
            out.probe("raw_counts", 1);
        }
        out
    }

    fn required_probes(&self) -> Vec<&'static str> {
        vec!["stale_output_file", "batches>=3", "raw_counts", "record_without_window"]
    }

    fn real_components(&self) -> Vec<&'static str> {
        vec![
            "composition::oligocgr::OligoCgrComputer (vectorise, batch loop, seq_to_kmer)",
            "kmer::kmer::KmerGenerator (kmer_pos_maps, iterator), ktio::seq, bio, flate2, std::fs",
        ]
    }

    fn nontrivial_rule(&self) -> &'static str {
        "a case is records x container x delivery plan x (k, square size, norm, threads, batch limit, file|stdin) x schedule; non-trivial = at least 2 records with at least one valid window AND at least one scheduling decision among >= 2 runnable tasks; distinct = distinct (workload hash, schedule hash) pairs"
    }

    fn is_nontrivial(&self, case: &Case, out: &Outcome) -> bool {
        case.records.len() >= 2
            && case.records.iter().any(|r| r.seq.len() >= case.p_usize("k"))
            && out.log.choice_steps > 0
    }
}
