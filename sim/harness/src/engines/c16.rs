//! C16 -- every subcommand ends cleanly with one row per record on degenerate
//! input.  The command line runs in-process (`Cli::try_parse_from` + `cli()`)
//! inside a simulated execution, so "exit status 0" is "cli() returns".

use crate::common::*;
use crate::exec::*;
use crate::gen::*;
use crate::model;
use crate::params;
use crate::pipelines::*;
use verif_rt::rng::Rng;

pub struct C16;

fn degenerate_records(rng: &mut Rng, marks: &[usize], allow_foreign: bool, thorough: bool) -> Vec<Rec> {
    let n = match rng.weighted(&[15, 20, 20, 35, 10]) {
        0 => 0,
        1 => 1,
        2 => 2,
        3 => rng.usize(3, 8),
        _ => rng.usize(9, if thorough { 60 } else { 20 }),
    };
    let mut out = Vec::new();
    for i in 0..n {
        let len = match rng.weighted(&[20, 55, 25]) {
            0 => 0,
            1 => {
                let m = *rng.pick(marks);
                (m + rng.usize(0, 2)).saturating_sub(1)
            }
            _ => rng.usize(1, 90),
        };
        let kind = if allow_foreign { rng.weighted(&[34, 13, 13, 13, 13, 14]) } else { 0 };
        let mut seq = match kind {
            0 => {
                let a = if rng.chance(1, 3) { Alpha::Mixed } else { Alpha::Clean };
                gen_seq(rng, len, a)
            }
            1 => gen_seq(rng, len, Alpha::AllN),
            2 => gen_seq(rng, len, Alpha::WithN),
            5 => {
                // low complexity: a homopolymer or short-period repeat (AT, CG, ...:
                // m-mers that are their own reverse complement), closed by another
                // base, an N, or the end of the record
                let body = len.max(2) + rng.usize(0, 40);
                let a = if rng.chance(1, 3) { Alpha::Homopolymer } else { Alpha::Repeat };
                let mut s = gen_seq(rng, body, a);
                match rng.below(3) {
                    0 => s.push('N'),
                    1 => s.push_str(&gen_seq(rng, 3, Alpha::Clean)),
                    _ => {}
                }
                s
            }
            _ => gen_seq(rng, len, Alpha::Clean),
        };
        if kind == 3 && !seq.is_empty() {
            seq.replace_range(0..1, "N");
        }
        if kind == 4 && !seq.is_empty() {
            let l = seq.len();
            seq.replace_range(l - 1..l, "N");
        }
        out.push(Rec {
            id: gen_id(rng, i),
            desc: gen_desc(rng),
            seq,
        });
    }
    out
}

fn is_nucleotide(seq: &str) -> bool {
    seq.bytes().all(|b| model::base_code(b).is_some())
}

impl Engine for C16 {
    fn prop(&self) -> &'static str {
        "C16"
    }

    fn generate(&self, rng: &mut Rng, tier: &str) -> Case {
        let thorough = tier == "thorough";
        let sub = *rng.pick(&["oligo", "oligo", "cgr", "kcgr", "cov", "ctr", "min", "min"]);
        let (k, m, w) = match sub {
            "oligo" | "kcgr" => (rng.usize(3, 7), 0, 0),
            "cov" => (rng.usize(7, 31), 0, 0),
            "ctr" => (rng.usize(10, 31), 0, 0),
            "min" => {
                let m = rng.usize(7, 28);
                let w = if rng.chance(1, 2) { 0 } else { m + rng.usize(1, 25) };
                (0, m, w)
            }
            _ => (0, 0, 0),
        };
        let marks: Vec<usize> = if sub == "min" {
            vec![0, 1, m - 1, m, m + 1, if w > 0 { w - 1 } else { m + 5 }, if w > 0 { w } else { m + 6 }, w + 1]
        } else {
            vec![0, 1, k.max(1) - 1, k.max(1), k + 1]
        };
        let mut records = degenerate_records(rng, &marks, true, thorough);
        if (sub == "oligo" || sub == "kcgr") && k >= 6 {
            records.truncate(6);
        }
        // rarely the opposite of degenerate, next to the degenerate records: 2-4 records
        // of 0.8-1.6 Mbases for the record-oriented commands whose cost is per record
        // (a minimiser listing with a short window is then a row of many megabytes)
        let mega = matches!(sub, "oligo" | "kcgr" | "min") && rng.chance(1, 2500);
        if mega {
            records.truncate(4);
            for i in 0..rng.usize(2, 4) {
                let len = rng.usize(800_000, 1_600_000);
                let at = rng.usize(0, records.len());
                records.insert(at, Rec { id: format!("big{i}"), desc: String::new(), seq: gen_seq(rng, len, Alpha::Clean) });
            }
        }
        let (m, w) = if mega && sub == "min" && rng.chance(2, 3) {
            let m = rng.usize(7, 12);
            (m, m + rng.usize(1, 3))
        } else {
            (m, w)
        };
        let stdin = (sub == "oligo" || sub == "cgr" || sub == "kcgr") && rng.chance(1, 3);
        let mut container = gen_container(rng, &records, false, !stdin);
        if stdin {
            container.gz = None;
        }
        let threads = *rng.pick(&[0usize, 1, 1, 2, 3, 8, 16]);
        // cov may count on another (equally degenerate) file
        let mut extra = vec![];
        if sub == "cov" && rng.chance(1, 2) {
            let alt = degenerate_records(rng, &marks, true, thorough);
            let c = gen_container(rng, &alt, false, true);
            extra.push(SubRun {
                records: alt,
                container: c,
                sched: Sched::fifo(),
                params: params! {},
            });
        }
        let sched = Sched::draw(rng, 8 * records.len() as u64 + 16);
        Case {
            prop: "C16".into(),
            tier: tier.into(),
            verif_seed: 0,
            index: 0,
            run_seed: 0,
            records,
            container,
            io: gen_io(rng, false),
            sched,
            params: params! {
                "sub" => sub,
                "k" => k,
                "m" => m,
                "w" => w,
                "threads" => threads,
                "counts" => rng.chance(1, 2),
                "header" => rng.chance(1, 2),
                "preset" => *rng.pick(&["csv", "tsv", "spc"]),
                "minpreset" => *rng.pick(&["s2m", "m2s"]),
                "acgt" => rng.chance(1, 2),
                "vecsize" => *rng.pick(&[0usize, 1, 16, 100]),
                "bin_size" => rng.usize(5, 20),
                "bin_count" => rng.usize(5, 20),
                "stdin" => stdin,
                "auto_threads" => rng.usize(1, 8),
            },
            extra,
        }
    }

    fn execute(&self, case: &Case, sb: &Sandbox) -> Outcome {
        let mut out = Outcome::default();
        let dir = sb.fresh("c16");
        let sub = case.p_str("sub");
        let stdin = case.p_bool("stdin");
        let in_path = if stdin {
            "-".to_string()
        } else {
            write_input(&dir, "in", &case.records, &case.container)
        };
        let stdin_bytes = if stdin { Some(render_bytes(&case.records, &case.container)) } else { None };
        let out_path = path_str(&dir.join("out"));
        let t = case.p_usize("threads").to_string();
        let k = case.p_usize("k");
        let (m, w) = (case.p_usize("m"), case.p_usize("w"));
        let s = |x: &str| x.to_string();
        let mut argv: Vec<String> = vec![s("kmertools")];
        match sub.as_str() {
            "oligo" => {
                argv.extend([s("comp"), s("oligo"), s("-i"), in_path.clone(), s("-o"), out_path.clone(), s("-k"), k.to_string(), s("-t"), t, s("-p"), case.p_str("preset")]);
                if case.p_bool("counts") {
                    argv.push(s("-c"));
                }
                if case.p_bool("header") {
                    argv.push(s("-H"));
                }
            }
            "cgr" => {
                argv.extend([s("comp"), s("cgr"), s("-i"), in_path.clone(), s("-o"), out_path.clone(), s("-t"), t]);
                if case.p_usize("vecsize") > 0 {
                    argv.extend([s("-v"), case.p_usize("vecsize").to_string()]);
                }
            }
            "kcgr" => {
                argv.extend([s("comp"), s("cgr"), s("-i"), in_path.clone(), s("-o"), out_path.clone(), s("-k"), k.to_string(), s("-t"), t]);
                if case.p_usize("vecsize") > 0 {
                    argv.extend([s("-v"), case.p_usize("vecsize").to_string()]);
                }
                if case.p_bool("counts") {
                    argv.push(s("-c"));
                }
            }
            "cov" => {
                argv.extend([
                    s("cov"), s("-i"), in_path.clone(), s("-o"), out_path.clone(), s("-k"), k.to_string(), s("-t"), t,
                    s("-p"), case.p_str("preset"), s("-s"), case.p_usize("bin_size").to_string(),
                    s("-c"), case.p_usize("bin_count").to_string(),
                ]);
                if case.p_bool("counts") {
                    argv.push(s("--counts"));
                }
                if let Some(e) = case.extra.first() {
                    let alt = write_input(&dir, "alt", &e.records, &e.container);
                    argv.extend([s("--alt-input"), alt]);
                    out.probe("cov_alt_input", 1);
                }
            }
            "ctr" => {
                argv.extend([s("ctr"), s("-i"), in_path.clone(), s("-o"), out_path.clone(), s("-k"), k.to_string(), s("-t"), t]);
                if case.p_bool("acgt") {
                    argv.push(s("--acgt"));
                }
            }
            _ => {
                argv.extend([
                    s("min"), s("-i"), in_path.clone(), s("-o"), out_path.clone(), s("-m"), m.to_string(),
                    s("-w"), w.to_string(), s("-p"), case.p_str("minpreset"), s("-t"), t,
                ]);
            }
        }
        out.probe(&format!("sub_{sub}"), 1);
        let r = run_cli(
            argv.clone(),
            stdin_bytes,
            &case.sched,
            &case.io,
            None,
            case.p_usize("auto_threads"),
            steps_for(case),
        );
        out.absorb(&r, true);
        let n = case.records.len();
        let foreign = case.records.iter().any(|r| !is_nucleotide(&r.seq));
        let shape = format!(
            "{} records, lengths {:?}, container {}, argv {:?}",
            n,
            case.records.iter().map(|r| r.seq.len()).take(12).collect::<Vec<_>>(),
            case.container.describe(),
            &argv[1..]
        );
        match &r.value {
            Err(e) => {
                out.fail("hang", format!("command does not finish (deadlock or step budget): {e}; {shape}"));
                return out;
            }
            Ok(Err(p)) => {
                if sub == "cgr" && foreign {
                    out.probe("cgr_refused_foreign_bytes", 1);
                    return out;
                }
                out.fail("panic", format!("command panicked: {p}; {shape}"));
                return out;
            }
            Ok(Ok(CliEnd::ParseError(e))) => {
                out.fail("parse", format!("a documented option combination was refused by the parser: {e}; {shape}"));
                return out;
            }
            Ok(Ok(CliEnd::Returned)) => {}
        }
        if n == 0 {
            out.probe("empty_input", 1);
        }
        if case.records.iter().any(|r| r.seq.is_empty()) {
            out.probe("record_without_bases", 1);
        }
        // record-oriented outputs: one row per record
        let read = |p: &str| std::fs::read(p).unwrap_or_default();
        let rows_of = |b: &[u8]| -> usize { b.iter().filter(|&&c| c == b'\n').count() };
        match sub.as_str() {
            "oligo" => {
                let b = read(&out_path);
                out.note(&b);
                // the mapped writer pre-sizes its file: bytes nobody wrote are NUL filler,
                // a placeholder standing where data should be (or rows without a record)
                if let Some(at) = b.iter().position(|&c| c == 0) {
                    out.fail("placeholder", format!("output holds never-written NUL bytes from offset {at} of {} ({} lines for {n} records); {shape}", b.len(), rows_of(&b)));
                    return out;
                }
                if !b.is_empty() && b.last() != Some(&b'\n') {
                    out.fail("placeholder", format!("output does not end with a complete row ({} bytes); {shape}", b.len()));
                    return out;
                }
                let hdr = if case.p_bool("header") { 1 } else { 0 };
                let rows = rows_of(&b);
                // with 0 records and no header the mapped writer may refuse a
                // zero-length mapping (an error message, status 0, empty file)
                if rows != n + hdr && !(n == 0 && rows == 0) {
                    out.fail("row_count", format!("{rows} lines for {n} records (+{hdr} header); {shape}"));
                    return out;
                }
                let delim = match case.p_str("preset").as_str() {
                    "csv" => ',',
                    "tsv" => '\t',
                    _ => ' ',
                };
                let text = String::from_utf8_lossy(&b).to_string();
                for (i, line) in text.lines().skip(if rows == n + hdr { hdr } else { 0 }).enumerate() {
                    if i < n && model::canonical_kmers(case.records[i].seq.as_bytes(), k).is_empty() {
                        out.probe("record_without_window", 1);
                        if !line.split(delim).all(|f| f.parse::<f64>().map(|v| v == 0.0).unwrap_or(false)) {
                            out.fail("nonzero_row", format!("record {i} has no valid window but its row is {:?}; {shape}", clip(line, 80)));
                            return out;
                        }
                    }
                }
            }
            "cgr" => {
                let b = read(&out_path);
                out.note(&b);
                if !foreign && rows_of(&b) != n {
                    out.fail("row_count", format!("{} lines for {n} records; {shape}", rows_of(&b)));
                    return out;
                }
            }
            "kcgr" => {
                let b = read(&out_path);
                out.note(&b);
                if rows_of(&b) != n {
                    out.fail("row_count", format!("{} lines for {n} records; {shape}", rows_of(&b)));
                    return out;
                }
                let text = String::from_utf8_lossy(&b).to_string();
                for (i, line) in text.lines().enumerate() {
                    if model::canonical_kmers(case.records[i].seq.as_bytes(), k).is_empty() {
                        out.probe("record_without_window", 1);
                        let ok = parse_tuples(line, 3).map(|t| t.iter().all(|v| v[2] == 0.0)).unwrap_or(false);
                        if !ok {
                            out.fail("nonzero_row", format!("record {i} has no valid window but a non-zero frequency; {shape}"));
                            return out;
                        }
                    }
                }
            }
            "cov" => {
                let b = read(&format!("{out_path}/kmers.vectors"));
                out.note(&b);
                if rows_of(&b) != n {
                    out.fail("row_count", format!("{} lines in kmers.vectors for {n} records; {shape}", rows_of(&b)));
                    return out;
                }
                let delim = match case.p_str("preset").as_str() {
                    "csv" => ',',
                    "tsv" => '\t',
                    _ => ' ',
                };
                let text = String::from_utf8_lossy(&b).to_string();
                for (i, line) in text.lines().enumerate() {
                    if model::canonical_kmers(case.records[i].seq.as_bytes(), k).is_empty() {
                        out.probe("record_without_window", 1);
                        if !line.split(delim).all(|f| f.parse::<f64>().map(|v| v == 0.0).unwrap_or(false)) {
                            out.fail("nonzero_row", format!("record {i} has no valid window but its row is {:?}; {shape}", clip(line, 80)));
                            return out;
                        }
                    }
                }
            }
            "ctr" => {
                let b = read(&format!("{out_path}/kmers.counts"));
                out.note(&b);
                if !std::path::Path::new(&format!("{out_path}/kmers.counts")).exists() {
                    out.fail("no_output", format!("kmers.counts missing; {shape}"));
                    return out;
                }
            }
            _ => {
                let b = read(&out_path);
                let mut l: Vec<&[u8]> = b.split(|&c| c == b'\n').collect();
                l.sort();
                out.note(&l.concat());
                // no run shorter than one window: separates data from the
                // "no run open" sentinel without re-specifying minimisers
                let len_of: std::collections::BTreeMap<&str, usize> =
                    case.records.iter().map(|r| (r.id.as_str(), r.seq.len())).collect();
                let need = |id: &str| if w == 0 { len_of.get(id).copied().unwrap_or(0).max(m) } else { w };
                // a reported minimiser is data only if it (or its reverse
                // complement) really occurs inside the stretch it is reported for;
                // the rendered "no run open" sentinel (TTT...T) usually does not
                let seq_of: std::collections::BTreeMap<&str, &str> =
                    case.records.iter().map(|r| (r.id.as_str(), r.seq.as_str())).collect();
                let occurs = |id: &str, mm: &str, s0: usize, e0: usize| -> bool {
                    let seq = match seq_of.get(id) {
                        Some(s) => s.as_bytes(),
                        None => return false,
                    };
                    if e0 > seq.len() || s0 > e0 {
                        return false;
                    }
                    let norm: Vec<u8> = seq[s0..e0]
                        .iter()
                        .map(|b| match b.to_ascii_uppercase() {
                            b'U' => b'T',
                            x => x,
                        })
                        .collect();
                    let fwd = mm.as_bytes();
                    let rc: Vec<u8> = fwd
                        .iter()
                        .rev()
                        .map(|b| match b {
                            b'A' => b'T',
                            b'C' => b'G',
                            b'G' => b'C',
                            _ => b'A',
                        })
                        .collect();
                    norm.windows(fwd.len()).any(|w| w == fwd || w == rc.as_slice())
                };
                if case.p_str("minpreset") == "s2m" {
                    match parse_s2m(&b) {
                        Err(e) => {
                            out.fail("format", format!("{e}; {shape}"));
                            return out;
                        }
                        Ok(lines) => {
                            if lines.len() != n {
                                out.fail("row_count", format!("{} lines for {n} records; {shape}", lines.len()));
                                return out;
                            }
                            for (id, runs) in &lines {
                                for (mm, s0, e0) in runs {
                                    out.probe("runs_checked", 1);
                                    if e0.saturating_sub(*s0) < need(id) || mm.len() != m {
                                        out.fail(
                                            "placeholder",
                                            format!(
                                                "record {id}: run {mm}:{s0}-{e0} is shorter than one window ({} bases): a sentinel written as data; {shape}",
                                                need(id)
                                            ),
                                        );
                                        return out;
                                    }
                                    if !occurs(id, mm, *s0, *e0) {
                                        out.fail(
                                            "placeholder",
                                            format!("record {id}: run {mm}:{s0}-{e0}: that m-mer (or its reverse complement) does not occur in bases {s0}..{e0} of the record: a sentinel written as data; {shape}"),
                                        );
                                        return out;
                                    }
                                }
                            }
                        }
                    }
                } else {
                    match parse_m2s(&b) {
                        Err(e) => {
                            out.fail("format", format!("{e}; {shape}"));
                            return out;
                        }
                        Ok(lines) => {
                            for (mm, entries) in &lines {
                                for (id, s0, e0) in entries {
                                    out.probe("runs_checked", 1);
                                    if e0.saturating_sub(*s0) < need(id) || mm.len() != m {
                                        out.fail(
                                            "placeholder",
                                            format!(
                                                "minimiser {mm}: entry ({id}, {s0}, {e0}) is shorter than one window ({} bases): a sentinel written as data; {shape}",
                                                need(id)
                                            ),
                                        );
                                        return out;
                                    }
                                    if !occurs(id, mm, *s0, *e0) {
                                        out.fail(
                                            "placeholder",
                                            format!("minimiser {mm}: entry ({id}, {s0}, {e0}): that m-mer (or its reverse complement) does not occur in bases {s0}..{e0} of the record: a sentinel written as data; {shape}"),
                                        );
                                        return out;
                                    }
                                }
                            }
                        }
                    }
                }
            }
        }
        if case.p_usize("threads") > n {
            out.probe("more_workers_than_records", 1);
        }
        out
    }

    fn required_probes(&self) -> Vec<&'static str> {
        vec![
            "sub_oligo", "sub_cgr", "sub_kcgr", "sub_cov", "sub_ctr", "sub_min",
            "empty_input", "record_without_bases", "record_without_window", "runs_checked",
            "cgr_refused_foreign_bytes",
        ]
    }

    fn real_components(&self) -> Vec<&'static str> {
        vec![
            "kmertools::args (clap parser + cli() wiring), run in-process",
            "composition, coverage, counter, misc, kmer, ktio",
            "bio, flate2, memmap2, scc, indicatif, std::fs",
        ]
    }

    fn stub_components(&self) -> Vec<&'static str> {
        vec![
            "rayon (contract-level model on shuttle tasks)",
            "std::sync::Mutex / atomics (shuttle's, via hook H3)",
            "standard input and delivery of file bytes (hook H1)",
            "main.rs / process exit status (cli() returning stands for status 0)",
        ]
    }

    fn nontrivial_rule(&self) -> &'static str {
        "a case is one subcommand x accepted options x a degenerate input (0 records; records of 0, 1, k-1, k, w-1, w bases; all-N; N first/last; mixtures) x container x schedule; non-trivial = the input is degenerate for the chosen subcommand (no record, or a record without a full window) ; distinct = distinct (workload hash, schedule hash) pairs"
    }

    fn is_nontrivial(&self, case: &Case, _out: &Outcome) -> bool {
        let need = match case.p_str("sub").as_str() {
            "min" => {
                if case.p_usize("w") == 0 {
                    case.p_usize("m")
                } else {
                    case.p_usize("w")
                }
            }
            "cgr" => 1,
            _ => case.p_usize("k"),
        };
        case.records.is_empty()
            || case
                .records
                .iter()
                .any(|r| r.seq.len() < need || !is_nucleotide(&r.seq))
    }
}
