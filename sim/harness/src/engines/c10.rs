//! C10 -- minimiser outputs: s2m lists each record's runs; m2s is its exact
//! inversion; both independent of thread count and worker interleaving.

use crate::common::*;
use crate::exec::*;
use crate::gen::*;
use crate::params;
use crate::pipelines::*;
use std::collections::BTreeMap;
use verif_rt::rng::Rng;

pub struct C10;

pub fn gen_min_case(rng: &mut Rng, tier: &str, prop: &str, degenerate: bool) -> Case {
    let thorough = tier == "thorough";
    let m = match rng.weighted(&[40, 40, 20]) {
        0 => rng.usize(1, 4),
        1 => rng.usize(5, 12),
        _ => rng.usize(13, 28),
    };
    let w = if rng.chance(1, 3) {
        0
    } else {
        m + match rng.weighted(&[40, 40, 20]) {
            0 => rng.usize(1, 3),
            1 => rng.usize(4, 20),
            _ => rng.usize(21, 60),
        }
    };
    let weff = if w == 0 { m + 10 } else { w };
    let g = RecGen {
        min_records: if degenerate { 0 } else { 1 },
        max_records: if thorough { 200 } else { 30 },
        max_len: if thorough { 900 } else { 260 },
        marks: vec![m.saturating_sub(1), m, m + 1, weff.saturating_sub(1), weff, weff + 1],
        alpha_w: if degenerate { [25, 10, 20, 10, 10, 10, 15] } else { [40, 12, 18, 8, 6, 14, 2] },
        min_len: 0,
        dup_pct: 10,
            tab_desc_pct: 0,
            utf8_id_pct: 15,
            dup_id_pct: 3,
            mega_1_in: 15000,
            twin_mega_1_in: 0,
            many_1_in: 800,
            overflow_top_w: 3,
    };
    let records = g.gen(rng);
    let container = gen_container(rng, &records, false, true);
    let total: usize = records.iter().map(|r| r.seq.len()).sum();
    let threads = gen_threads(rng);
    let sched = Sched::draw(rng, 2 * total as u64 + 10 * records.len() as u64 + 16);
    Case {
        prop: prop.into(),
        tier: tier.into(),
        verif_seed: 0,
        index: 0,
        run_seed: 0,
        records,
        container,
        io: gen_io(rng, false),
        sched,
        params: params! {
            "w" => w,
            "m" => m,
            "threads" => threads,
            "preset" => *rng.pick(&["s2m", "m2s"]),
            "stale" => if rng.chance(1, 8) { rng.range(1, 1 << 40) } else { 0 },
        },
        extra: vec![],
    }
}

/// Sequential specification: the runs the core minimiser iterator yields for
/// one record on its own (w = record length when w = 0), as text.
pub fn spec_runs(seq: &[u8], w: usize, m: usize) -> Result<Vec<Run>, String> {
    let seq = seq.to_vec();
    if w == 0 && seq.len() < m {
        // the whole record is the window, and it holds no m-mer: no minimiser
        return Ok(Vec::new());
    }
    std::panic::catch_unwind(move || {
        let weff = if w == 0 { seq.len() } else { w };
        kmer::minimiser::MinimiserGenerator::new(&seq, weff, m)
            .map(|(k, s, e)| (kmer::numeric_to_kmer(k, m), s, e))
            .collect::<Vec<Run>>()
    })
    .map_err(|p| verif_rt::sched::panic_text(&p))
}

pub fn check_min_output(out: &mut Outcome, case: &Case, cfg: &MinCfg, bytes: &[u8]) {
    // specification per record
    let mut spec: Vec<(String, Vec<Run>)> = Vec::new();
    for r in &case.records {
        match spec_runs(r.seq.as_bytes(), cfg.w, cfg.m) {
            Ok(runs) => spec.push((r.id.clone(), runs)),
            Err(p) => {
                out.fail(
                    "spec_panic",
                    format!(
                        "the minimiser iterator itself panics on record {:?} (len {}, w={}, m={}): {p}",
                        r.id,
                        r.seq.len(),
                        cfg.w,
                        cfg.m
                    ),
                );
                return;
            }
        }
    }
    if cfg.preset == "s2m" {
        let got = match parse_s2m(bytes) {
            Ok(g) => g,
            Err(e) => {
                out.fail("s2m_format", format!("torn or malformed line: {e}"));
                return;
            }
        };
        if got.len() != case.records.len() {
            out.fail("s2m_lines", format!("{} lines for {} records", got.len(), case.records.len()));
            return;
        }
        let mut a = got;
        let mut b = spec.clone();
        a.sort();
        b.sort();
        if a != b {
            let i = a.iter().zip(b.iter()).position(|(x, y)| x != y).unwrap_or(0);
            out.fail(
                "s2m_content",
                format!(
                    "lines differ from the records' own runs (as multisets); first difference: got {:?}, expected {:?}",
                    clip(&format!("{:?}", a.get(i)), 200),
                    clip(&format!("{:?}", b.get(i)), 200)
                ),
            );
        }
    } else {
        let got = match parse_m2s(bytes) {
            Ok(g) => g,
            Err(e) => {
                out.fail("m2s_format", format!("torn or malformed line: {e}"));
                return;
            }
        };
        // inversion of the specification
        let mut inv: BTreeMap<String, Vec<Run>> = BTreeMap::new();
        for (id, runs) in &spec {
            for (mm, s, e) in runs {
                inv.entry(mm.clone()).or_default().push((id.clone(), *s, *e));
            }
        }
        let mut seen: BTreeMap<String, Vec<Run>> = BTreeMap::new();
        for (mm, entries) in got {
            if seen.contains_key(&mm) {
                out.fail("m2s_duplicate", format!("minimiser {mm} has more than one line"));
                return;
            }
            seen.insert(mm, entries);
        }
        for v in inv.values_mut() {
            v.sort();
        }
        for v in seen.values_mut() {
            v.sort();
        }
        if seen != inv {
            let keys_a: Vec<&String> = seen.keys().collect();
            let keys_b: Vec<&String> = inv.keys().collect();
            let detail = if keys_a != keys_b {
                format!("{} minimiser lines, {} distinct minimisers in the records' runs", keys_a.len(), keys_b.len())
            } else {
                let k = keys_a.iter().find(|k| seen[**k] != inv[**k]).unwrap();
                format!(
                    "minimiser {k}: listed {:?}, the records' runs give {:?}",
                    clip(&format!("{:?}", seen[*k]), 200),
                    clip(&format!("{:?}", inv[*k]), 200)
                )
            };
            out.fail("m2s_content", format!("listing is not the inversion of the records' runs: {detail}"));
        }
        if inv.values().any(|v| v.len() >= 3) {
            out.probe("minimiser_shared_by>=3_entries", 1);
        }
    }
}

impl Engine for C10 {
    fn prop(&self) -> &'static str {
        "C10"
    }

    fn generate(&self, rng: &mut Rng, tier: &str) -> Case {
        gen_min_case(rng, tier, "C10", false)
    }

    fn execute(&self, case: &Case, sb: &Sandbox) -> Outcome {
        let mut out = Outcome::default();
        let dir = sb.fresh("c10");
        let cfg = MinCfg::from_params(&case.params);
        let in_path = write_input(&dir, "in", &case.records, &case.container);
        let out_path = dir.join("out.min");
        if stale_output(&out_path, case.params.get("stale").and_then(|v| v.as_u64()).unwrap_or(0)) {
            out.probe("stale_output_file", 1);
        }
        let r = run_min(&in_path, &out_path, &cfg, &case.sched, &case.io, None, 4, steps_for(case));
        out.absorb(&r, true);
        match &r.value {
            Err(e) => {
                out.fail("exec", format!("run did not finish: {e}"));
                return out;
            }
            Ok(Err(p)) => {
                out.fail(
                    "panic",
                    format!(
                        "{} panicked (w={}, m={}, shortest record {} bases): {p}",
                        cfg.preset,
                        cfg.w,
                        cfg.m,
                        case.records.iter().map(|r| r.seq.len()).min().unwrap_or(0)
                    ),
                );
                return out;
            }
            Ok(Ok(())) => {}
        }
        match std::fs::read(&out_path) {
            Err(_) => out.fail("no_output", "no output file".into()),
            Ok(bytes) => {
                let mut l: Vec<&[u8]> = bytes.split(|&b| b == b'\n').collect();
                l.sort();
                out.note(&l.concat());
                check_min_output(&mut out, case, &cfg, &bytes);
            }
        }
        if cfg.w == 0 {
            out.probe("w=0", 1);
        }
        out.probe(&format!("preset_{}", cfg.preset), 1);
        if cfg.threads > case.records.len() {
            out.probe("more_workers_than_records", 1);
        }
        out
    }

    fn required_probes(&self) -> Vec<&'static str> {
        vec!["stale_output_file", "w=0", "preset_s2m", "preset_m2s", "minimiser_shared_by>=3_entries", "more_workers_than_records"]
    }

    fn real_components(&self) -> Vec<&'static str> {
        vec![
            "misc::minimisers::{seq_to_min, bin_sequences}",
            "kmer::minimiser::MinimiserGenerator (also the sequential specification, run per record on the harness thread)",
            "scc::HashMap behind scheduling points, ktio::seq",
            "std::fs output file behind the writer mutex",
        ]
    }

    fn nontrivial_rule(&self) -> &'static str {
        "a case is records x container x delivery plan x (w, m, threads, preset) x schedule; non-trivial = at least 2 records, at least one run in the specification, and at least one scheduling decision among >= 2 runnable tasks; distinct = distinct (workload hash, schedule hash) pairs"
    }

    fn is_nontrivial(&self, case: &Case, out: &Outcome) -> bool {
        case.records.len() >= 2
            && case.records.iter().any(|r| r.seq.len() >= case.p_usize("m"))
            && out.log.choice_steps > 0
    }
}
