//! C13 -- the Python bindings compute what the Rust core computes.  The
//! `#[pyclass]` types of `pybindings` are instantiated and called through an
//! embedded CPython (the interpreter pyo3 was configured against) INSIDE a
//! simulated execution, so the rayon pool behind `vectorise_batch` is the
//! stand-in and its schedule belongs to the simulator.
//!
//! Decided here: the batch calls return exactly the per-sequence results in
//! argument order for any batch size and pool schedule, and a bad nucleotide
//! raises ValueError (never a Rust panic surfacing in Python).
//! Sampled as by-product: iterators, header, unicode, string released.

use crate::common::*;
use crate::exec::*;
use crate::gen::*;
use crate::model;
use crate::params;
use pyo3::exceptions::PyValueError;
use pyo3::prelude::*;
use pyo3::types::{PyList, PyString};
use verif_rt::rng::Rng;

pub struct C13;

fn py_init() {
    static ONCE: std::sync::Once = std::sync::Once::new();
    ONCE.call_once(|| {
        // the interpreter linked in is the system one (PYO3_PYTHON in
        // .cargo/config.toml); make it find its own standard library whatever
        // `python3` is first on PATH
        if std::env::var_os("PYTHONHOME").is_none() && std::path::Path::new("/usr/lib/python3.11/os.py").exists() {
            std::env::set_var("PYTHONHOME", "/usr");
        }
        pyo3::prepare_freethreaded_python();
    });
}

fn err_text(py: Python<'_>, e: &PyErr) -> String {
    format!("{}: {}", e.get_type(py).name().map(|n| n.to_string()).unwrap_or_default(), e.value(py))
}

#[derive(Debug)]
enum PyOutcome {
    /// batch result and per-sequence results agree
    Ok { digest: u64, items: usize },
    /// the expected ValueError was raised
    ValueError,
    Violation(String, String),
}

fn run_py(mode: &str, seqs: Vec<String>, k: usize, w: usize, m: usize, vecsize: usize, norm: bool) -> PyOutcome {
    Python::with_gil(|py| -> PyOutcome {
        let viol = |c: &str, d: String| PyOutcome::Violation(c.to_string(), d);
        match mode {
            "oligo_batch" => {
                let obj = match py.get_type::<pybindings::oligo::OligoComputer>().call1((k,)) {
                    Ok(o) => o,
                    Err(e) => return viol("py_error", format!("OligoComputer({k}) failed: {}", err_text(py, &e))),
                };
                let batch = match obj.call_method1("vectorise_batch", (seqs.clone(), norm)) {
                    Ok(b) => b,
                    Err(e) => return viol("py_error", format!("vectorise_batch raised {}", err_text(py, &e))),
                };
                let batch: Vec<Vec<f64>> = match batch.extract() {
                    Ok(b) => b,
                    Err(e) => return viol("py_type", format!("vectorise_batch did not return list[list[float]]: {}", err_text(py, &e))),
                };
                if batch.len() != seqs.len() {
                    return viol("batch_len", format!("{} results for {} sequences", batch.len(), seqs.len()));
                }
                let cols = super::c12::canonical_columns(k);
                let mut digest = 0u64;
                for (i, s) in seqs.iter().enumerate() {
                    let one: Vec<f64> = match obj.call_method1("vectorise_one", (s.as_str(), norm)).and_then(|v| v.extract()) {
                        Ok(v) => v,
                        Err(e) => return viol("py_error", format!("vectorise_one raised {}", err_text(py, &e))),
                    };
                    if one != batch[i] {
                        return viol(
                            "batch_order",
                            format!("vectorise_batch()[{i}] differs from vectorise_one(seqs[{i}]) (batch of {}, sequence of {} chars)", seqs.len(), s.len()),
                        );
                    }
                    // by-product: the value itself, against the naive model
                    let km = model::canonical_kmers(s.as_bytes(), k);
                    let tot = km.len() as f64;
                    let mut cnt = std::collections::BTreeMap::new();
                    for c in km {
                        *cnt.entry(c).or_insert(0u64) += 1;
                    }
                    if one.len() != cols.len() {
                        return viol("columns", format!("vector has {} entries, k={k} has {} canonical k-mers", one.len(), cols.len()));
                    }
                    for (j, c) in cols.iter().enumerate() {
                        let n = cnt.get(c).copied().unwrap_or(0) as f64;
                        let e = if norm { n / f64::max(1.0, tot) } else { n };
                        if one[j] != e {
                            return viol("value", format!("sequence {i} column {j}: {} but the core definition gives {e}", one[j]));
                        }
                    }
                    digest = verif_rt::rng::mix(&[digest, verif_rt::rng::hash_str(&format!("{:?}", one))]);
                }
                // header
                let header: Vec<String> = match obj.call_method0("get_header").and_then(|h| h.extract()) {
                    Ok(h) => h,
                    Err(e) => return viol("py_error", format!("get_header raised {}", err_text(py, &e))),
                };
                let want: Vec<String> = cols.iter().map(|&c| model::kmer_text(c, k)).collect();
                if header != want {
                    return viol("header", format!("get_header() differs from the canonical k-mers in column order (k={k})"));
                }
                PyOutcome::Ok { digest, items: seqs.len() }
            }
            "cgr_batch" => {
                let obj = match py.get_type::<pybindings::cgr::CgrComputer>().call1((vecsize,)) {
                    Ok(o) => o,
                    Err(e) => return viol("py_error", format!("CgrComputer({vecsize}) failed: {}", err_text(py, &e))),
                };
                let bad = seqs.iter().any(|s| s.bytes().any(|b| model::cgr_corner(b).is_none()));
                let batch = obj.call_method1("vectorise_batch", (seqs.clone(),));
                match batch {
                    Err(e) => {
                        if bad && e.is_instance_of::<PyValueError>(py) {
                            // the refusal must leave the object as good as new: the very same
                            // computer still gives every clean string of the batch its points,
                            // and still refuses the others
                            for (i, s) in seqs.iter().enumerate() {
                                let clean = s.bytes().all(|b| model::cgr_corner(b).is_some());
                                match obj.call_method1("vectorise_one", (s.as_str(),)) {
                                    Ok(v) => {
                                        if !clean {
                                            return viol("bad_nucleotide_accepted", format!("after a refused batch, vectorise_one accepted sequence {i}, which holds a non-nucleotide character"));
                                        }
                                        let one: Vec<(f64, f64)> = match v.extract() {
                                            Ok(v) => v,
                                            Err(e) => return viol("py_type", format!("unexpected result type: {}", err_text(py, &e))),
                                        };
                                        let pts: Vec<Vec<f64>> = one.iter().map(|p| vec![p.0, p.1]).collect();
                                        if let Err(e) = super::c11::check_cgr_row(s.as_bytes(), vecsize as f64, &pts) {
                                            return viol("value", format!("after a refused batch, sequence {i}: {e}"));
                                        }
                                    }
                                    Err(e) => {
                                        if clean {
                                            return viol("state_after_error", format!("after a refused batch the same computer refuses the clean sequence {i} ({} chars): {}", s.len(), err_text(py, &e)));
                                        }
                                        if !e.is_instance_of::<PyValueError>(py) {
                                            return viol("not_value_error", format!("vectorise_one raised {}", err_text(py, &e)));
                                        }
                                    }
                                }
                            }
                            return PyOutcome::ValueError;
                        }
                        return viol(
                            if bad { "not_value_error" } else { "py_error" },
                            format!("vectorise_batch raised {} (bad nucleotide in batch: {bad})", err_text(py, &e)),
                        );
                    }
                    Ok(b) => {
                        if bad {
                            return viol("bad_nucleotide_accepted", "a batch containing a non-nucleotide character returned a result".to_string());
                        }
                        let b: Vec<Vec<(f64, f64)>> = match b.extract() {
                            Ok(b) => b,
                            Err(e) => return viol("py_type", format!("unexpected result type: {}", err_text(py, &e))),
                        };
                        if b.len() != seqs.len() {
                            return viol("batch_len", format!("{} results for {} sequences", b.len(), seqs.len()));
                        }
                        let mut digest = 0u64;
                        for (i, s) in seqs.iter().enumerate() {
                            let one: Vec<(f64, f64)> = match obj.call_method1("vectorise_one", (s.as_str(),)).and_then(|v| v.extract()) {
                                Ok(v) => v,
                                Err(e) => return viol("py_error", format!("vectorise_one raised {}", err_text(py, &e))),
                            };
                            if one != b[i] {
                                return viol(
                                    "batch_order",
                                    format!("vectorise_batch()[{i}] differs from vectorise_one(seqs[{i}]) (batch of {})", seqs.len()),
                                );
                            }
                            let pts: Vec<Vec<f64>> = one.iter().map(|p| vec![p.0, p.1]).collect();
                            if let Err(e) = super::c11::check_cgr_row(s.as_bytes(), vecsize as f64, &pts) {
                                return viol("value", format!("sequence {i}: {e}"));
                            }
                            digest = verif_rt::rng::mix(&[digest, verif_rt::rng::hash_str(&format!("{:?}", one))]);
                        }
                        PyOutcome::Ok { digest, items: seqs.len() }
                    }
                }
            }
            "kmer_iter" | "min_iter" => {
                let gc = py.import("gc").ok();
                let mut digest = 0u64;
                for s in seqs.iter() {
                    let pystr = PyString::new(py, s);
                    let obj = if mode == "kmer_iter" {
                        py.get_type::<pybindings::kmer::KmerGenerator>().call1((pystr.clone(), k))
                    } else {
                        py.get_type::<pybindings::min::MinimiserGenerator>().call1((pystr.clone(), w, m))
                    };
                    let obj = match obj {
                        Ok(o) => o,
                        Err(e) => return viol("py_error", format!("constructor raised {}", err_text(py, &e))),
                    };
                    // release the Python string, collect, and churn the allocator
                    drop(pystr);
                    if let Some(gc) = &gc {
                        let _ = gc.call_method0("collect");
                    }
                    let churn = PyList::empty(py);
                    for i in 0..8 {
                        let _ = churn.append(PyString::new(py, &format!("{}{}", "#".repeat(s.len().max(1)), i)));
                    }
                    let it = match obj.try_iter() {
                        Ok(i) => i,
                        Err(e) => return viol("py_error", format!("iter() raised {}", err_text(py, &e))),
                    };
                    if mode == "kmer_iter" {
                        let mut got: Vec<(u64, u64)> = Vec::new();
                        for item in it {
                            match item.and_then(|v| v.extract::<(u64, u64)>()) {
                                Ok(v) => got.push(v),
                                Err(e) => return viol("py_error", format!("next() raised {}", err_text(py, &e))),
                            }
                        }
                        let want: Vec<(u64, u64)> = kmer::kmer::KmerGenerator::new(s.as_bytes(), k).collect();
                        if got != want {
                            return viol("iterator", format!("Python KmerGenerator yields {} items, the core iterator {} (or they differ) for a {}-byte string", got.len(), want.len(), s.len()));
                        }
                        digest = verif_rt::rng::mix(&[digest, verif_rt::rng::hash_str(&format!("{:?}", got))]);
                    } else {
                        let mut got: Vec<(u64, usize, usize)> = Vec::new();
                        for item in it {
                            match item.and_then(|v| v.extract::<(u64, usize, usize)>()) {
                                Ok(v) => got.push(v),
                                Err(e) => return viol("py_error", format!("next() raised {}", err_text(py, &e))),
                            }
                        }
                        let want: Vec<(u64, usize, usize)> = kmer::minimiser::MinimiserGenerator::new(s.as_bytes(), w, m).collect();
                        if got != want {
                            return viol("iterator", format!("Python MinimiserGenerator differs from the core iterator for a {}-byte string (w={w}, m={m})", s.len()));
                        }
                        digest = verif_rt::rng::mix(&[digest, verif_rt::rng::hash_str(&format!("{:?}", got))]);
                    }
                }
                PyOutcome::Ok { digest, items: seqs.len() }
            }
            other => viol("harness", format!("unknown mode {other}")),
        }
    })
}

impl Engine for C13 {
    fn prop(&self) -> &'static str {
        "C13"
    }

    fn generate(&self, rng: &mut Rng, tier: &str) -> Case {
        let thorough = tier == "thorough";
        let mode = *rng.pick(&["oligo_batch", "oligo_batch", "oligo_batch", "oligo_batch", "cgr_batch", "cgr_batch", "cgr_batch", "cgr_batch", "kmer_iter", "min_iter"]);
        let k = match mode {
            "oligo_batch" => rng.usize(1, if thorough { 7 } else { 5 }),
            "kmer_iter" => rng.usize(1, 31),
            _ => 0,
        };
        let m = rng.usize(1, 28);
        let w = m + rng.usize(0, 30);
        let batch = match rng.weighted(&[5, 30, 40, 25]) {
            0 => 0,
            1 => rng.usize(1, 4),
            2 => rng.usize(5, 40),
            _ => rng.usize(41, if thorough { 2000 } else { 250 }),
        };
        let g = RecGen {
            min_records: batch,
            max_records: batch,
            max_len: if batch > 100 { 60 } else { 300 },
            marks: vec![0, 1, k.max(1), m, w],
            alpha_w: if mode == "cgr_batch" { [55, 45, 0, 0, 0, 0, 0] } else { [40, 20, 15, 10, 5, 8, 2] },
            min_len: 0,
            dup_pct: 20,
            tab_desc_pct: 0,
            utf8_id_pct: 0,
            dup_id_pct: 0,
            mega_1_in: 0,
            twin_mega_1_in: 0,
            many_1_in: 1500,
            overflow_top_w: 1,
        };
        let mut records = g.gen(rng);
        while records.len() < batch {
            let len = rng.usize(0, 40);
            records.push(Rec {
                id: format!("x{}", records.len()),
                desc: String::new(),
                seq: gen_seq(rng, len, Alpha::Clean),
            });
        }
        records.truncate(batch);
        // now and then one very long Python string (beyond 16 KiB)
        if !records.is_empty() && rng.chance(1, 20) {
            let i = rng.usize(0, records.len() - 1);
            // (one in four of them beyond 2^16 as well)
            let len = if rng.chance(1, 4) { rng.usize(65537, 140000) } else { rng.usize(16385, 40000) };
            let a = if mode == "cgr_batch" { Alpha::Mixed } else { Alpha::WithN };
            records[i].seq = gen_seq(rng, len, a);
        }
        // very rarely one string beyond 2^24 characters (see `gen_huge_seq`): the row of an
        // oligo vector stays 4^k/2 numbers long whatever the length
        if mode == "oligo_batch" && !records.is_empty() && rng.chance(1, 2000) {
            records.truncate(3);
            let i = rng.usize(0, records.len() - 1);
            records[i].seq = gen_huge_seq(rng);
        }
        // arbitrary unicode acts as ambiguous bytes (iterators / oligo only)
        if mode != "cgr_batch" && rng.chance(1, 4) && !records.is_empty() {
            let i = rng.usize(0, records.len() - 1);
            let ins: String = if rng.chance(1, 3) {
                let base = *rng.pick(&[0x100u32, 0x400, 0x4E00, 0x1F300]);
                let low = *rng.pick(b"ACGTUacgtu") as u32;
                char::from_u32(base + low).unwrap_or('\u{141}').to_string()
            } else {
                rng.pick(&["\u{e9}", "\u{3b1}", "\u{4e2d}", "\u{1f9ec}", "n", "-"]).to_string()
            };
            let pos = rng.usize(0, records[i].seq.len());
            records[i].seq.insert_str(pos, &ins);
        }
        // white space is one more ambiguous byte for the core: strings as they come out
        // of a file (line end kept, leading blanks, a blank line in the middle, non-ASCII
        // white space) must give what the core gives for the very same bytes
        if mode != "cgr_batch" && rng.chance(1, 5) && !records.is_empty() {
            let i = rng.usize(0, records.len() - 1);
            for _ in 0..rng.usize(1, 2) {
                let ws = *rng.pick(&["\n", "\r\n", " ", "\t", "  ", "\u{a0}", "\u{2003}", "\n\n"]);
                let n = records[i].seq.chars().count();
                let at = match rng.below(3) {
                    0 => 0,
                    1 => n,
                    _ => rng.usize(0, n),
                };
                let byte_at = records[i].seq.char_indices().nth(at).map(|x| x.0).unwrap_or(records[i].seq.len());
                records[i].seq.insert_str(byte_at, ws);
            }
        }
        // a bad nucleotide somewhere in a CGR batch must raise ValueError
        if mode == "cgr_batch" && rng.chance(1, 4) && !records.is_empty() {
            let i = rng.usize(0, records.len() - 1);
            let pos = rng.usize(0, records[i].seq.len());
            // printable foreign bytes, non-ASCII characters, and non-ASCII characters
            // whose code point has a nucleotide letter as its low byte (U+0141 ...)
            let bad: String = match rng.below(3) {
                0 => rng.pick(&["N", "x", "-", "4", "5", "!", "#", "'", "1"]).to_string(),
                1 => rng.pick(&["\u{e9}", "\u{3b1}", "\u{4e2d}", "\u{1f9ec}", "t\u{301}"]).to_string(),
                _ => {
                    let base = *rng.pick(&[0x100u32, 0x400, 0x4E00, 0x1F300, 0x2000]);
                    let low = *rng.pick(b"ACGTUacgtu") as u32;
                    char::from_u32(base + low).unwrap_or('\u{141}').to_string()
                }
            };
            records[i].seq.insert_str(pos, &bad);
        }
        let sched = Sched::draw(rng, 4 * batch as u64 + 8);
        Case {
            prop: "C13".into(),
            tier: tier.into(),
            verif_seed: 0,
            index: 0,
            run_seed: 0,
            records,
            container: Container::plain_fasta(),
            io: IoSpec::off(),
            sched,
            params: params! {
                "mode" => mode,
                "k" => k,
                "m" => m,
                "w" => w,
                "vecsize" => super::c11::gen_vecsize(rng),
                "norm" => rng.chance(1, 2),
                "pool" => gen_threads(rng),
            },
            extra: vec![],
        }
    }

    fn execute(&self, case: &Case, _sb: &Sandbox) -> Outcome {
        py_init();
        let mut out = Outcome::default();
        let mode = case.p_str("mode");
        let seqs: Vec<String> = case.records.iter().map(|r| r.seq.clone()).collect();
        let (k, w, m, vs, norm) = (
            case.p_usize("k"),
            case.p_usize("w"),
            case.p_usize("m"),
            case.p_usize("vecsize"),
            case.p_bool("norm"),
        );
        let mode2 = mode.clone();
        let r = sim(
            &case.sched,
            &case.io,
            None,
            None,
            case.p_usize("pool"),
            steps_for(case),
            move || run_py(&mode2, seqs, k, w, m, vs, norm),
        );
        out.absorb(&r, true);
        out.probe(&format!("mode_{mode}"), 1);
        match r.value {
            Err(e) => out.fail("exec", format!("execution failed: {e}")),
            Ok(Err(p)) => out.fail("panic", format!("a Rust panic escaped the binding: {p}")),
            Ok(Ok(PyOutcome::Violation(c, d))) => out.fail(&c, d),
            Ok(Ok(PyOutcome::ValueError)) => out.probe("value_error_raised", 1),
            Ok(Ok(PyOutcome::Ok { digest, items })) => {
                out.note(&digest.to_le_bytes());
                if items == 0 {
                    out.probe("empty_batch", 1);
                }
                if items >= 100 {
                    out.probe("batch>=100", 1);
                }
            }
        }
        if case.records.iter().any(|r| !r.seq.is_ascii()) {
            out.probe("unicode_input", 1);
        }
        out
    }

    fn required_probes(&self) -> Vec<&'static str> {
        vec![
            "mode_oligo_batch", "mode_cgr_batch", "mode_kmer_iter", "mode_min_iter",
            "value_error_raised", "empty_batch", "batch>=100", "unicode_input",
        ]
    }

    fn real_components(&self) -> Vec<&'static str> {
        vec![
            "pybindings::{oligo, cgr, kmer, min} #[pyclass] types, called through pyo3",
            "CPython 3.11 embedded in the simulator process (argument conversion, exceptions, gc)",
            "kmer core iterators, composition::cgr::cgr_maps",
        ]
    }

    fn stub_components(&self) -> Vec<&'static str> {
        vec![
            "rayon global pool behind vectorise_batch (contract-level model on shuttle tasks)",
            "the pip/conda cdylib module registration is not loaded (classes are taken from the pybindings rlib)",
        ]
    }

    fn nontrivial_rule(&self) -> &'static str {
        "a case is one binding entry point x a list of Python strings (0..2000, duplicates, mixed lengths, unicode, optionally one bad nucleotide) x parameters x pool size x schedule; non-trivial = a batch call over >= 2 sequences with >= 1 scheduling decision among >= 2 runnable tasks, or an iterator case with >= 1 non-empty string; distinct = distinct (workload hash, schedule hash) pairs"
    }

    fn is_nontrivial(&self, case: &Case, out: &Outcome) -> bool {
        let mode = case.p_str("mode");
        if mode.ends_with("_batch") {
            case.records.len() >= 2 && out.log.choice_steps > 0
        } else {
            case.records.iter().any(|r| !r.seq.is_empty())
        }
    }
}
