//! C11 -- whole-sequence CGR follows the chaos-game midpoint rule inside the
//! square; rows in input order for every thread count, batch limit and
//! schedule; a record with a foreign byte is rejected.

use crate::common::*;
use crate::exec::*;
use crate::gen::*;
use crate::model;
use crate::params;
use crate::pipelines::*;
use verif_rt::rng::Rng;

pub struct C11;

pub fn gen_vecsize(rng: &mut Rng) -> usize {
    match rng.weighted(&[25, 30, 25, 20]) {
        0 => 1,
        1 => 1usize << rng.usize(1, 20),
        2 => rng.usize(2, 1000),
        _ => rng.usize(1001, 1 << 20),
    }
}

/// Batch limit; sometimes exactly the number of bases of the first j records,
/// so that a batch ends exactly on the limit.
pub fn gen_memory_rec(rng: &mut Rng, records: &[Rec]) -> usize {
    let total: usize = records.iter().map(|r| r.seq.len()).sum();
    if !records.is_empty() && rng.chance(1, 5) {
        let j = rng.usize(1, records.len());
        let pre: usize = records[..j].iter().map(|r| r.seq.len()).sum();
        return pre.max(1);
    }
    gen_memory(rng, total)
}

pub fn gen_memory(rng: &mut Rng, total: usize) -> usize {
    match rng.weighted(&[20, 10, 35, 15, 20]) {
        0 => 1,
        1 => 2,
        2 => rng.usize(1, total.max(2)),
        3 => total.max(1),
        _ => 4usize << 30,
    }
}

pub fn gen_cgr_case(rng: &mut Rng, tier: &str, prop: &str, k: usize) -> Case {
    let thorough = tier == "thorough";
    let g = RecGen {
        min_records: 1,
        max_records: if thorough { 200 } else { 24 },
        max_len: if thorough { 2500 } else { 220 },
        marks: vec![0, 1, 2, 33, 54, k.max(1)],
        // whole-sequence CGR accepts ACGTU in both cases only
        alpha_w: if k == 0 { [55, 35, 0, 0, 4, 6, 0] } else { [45, 20, 15, 8, 4, 6, 2] },
        min_len: 0,
        dup_pct: 4,
            tab_desc_pct: 0,
            utf8_id_pct: 0,
            dup_id_pct: 0,
            mega_1_in: 0,
            twin_mega_1_in: 0,
            many_1_in: if k > 0 && k <= 5 { 500 } else { 1500 },
            overflow_top_w: 1,
    };
    let mut records = g.gen(rng);
    if k >= 6 {
        records.truncate(if thorough { 30 } else { 6 });
    }
    let mut bad = -1i64;
    // (a fault is worth most inside a workload that keeps many things in flight: one time
    // in two when there are a thousand records or more)
    if k == 0 && (rng.chance(1, 5) || (records.len() >= 1000 && rng.chance(3, 8))) {
        // rejection clause: one foreign byte in one record
        let candidates: Vec<usize> = (0..records.len()).filter(|&i| !records[i].seq.is_empty()).collect();
        if !candidates.is_empty() {
            let j = *rng.pick(&candidates);
            let pos = rng.usize(0, records[j].seq.len() - 1);
            // any printable byte that is not a nucleotide letter (the structural
            // '>', '@', '+' excepted); digits and punctuation alias the letters
            // in their low bits
            const FOREIGN: &[u8] = b"NnRrYyKkMmSsWwBbDdHhVvXx-.*0123456789!#$%&'(),/:;<=?[]^_{|}~EFIJLOPQZefijlopqz";
            let b = *rng.pick(FOREIGN);
            let mut s = records[j].seq.clone().into_bytes();
            s[pos] = b;
            records[j].seq = String::from_utf8(s).unwrap();
            bad = j as i64;
        }
    }
    let stdin = rng.chance(1, 4);
    let mut container = gen_container(rng, &records, false, !stdin);
    if stdin {
        container.gz = None;
    }
    let threads = gen_threads(rng);
    let sched = Sched::draw(rng, 3 * records.len() as u64 + 4 * threads as u64 + 8);
    let records_for_memory = records.clone();
    Case {
        prop: prop.into(),
        tier: tier.into(),
        verif_seed: 0,
        index: 0,
        run_seed: 0,
        records,
        container,
        io: gen_io(rng, false),
        sched,
        params: params! {
            "k" => k,
            "vecsize" => gen_vecsize(rng),
            "threads" => threads,
            "memory" => gen_memory_rec(rng, &records_for_memory),
            "norm" => !rng.chance(1, 2),
            "stdin" => stdin,
            "bad_record" => bad,
            "order" => if rng.chance(1, 2) { 0 } else { rng.range(1, 1 << 40) },
            "stale" => if rng.chance(1, 8) { rng.range(1, 1 << 40) } else { 0 },
        },
        extra: vec![],
    }
}

/// Check one row against the chaos game of `seq` in a square of side `s`.
pub fn check_cgr_row(seq: &[u8], s: f64, pts: &[Vec<f64>]) -> Result<(bool, bool), String> {
    if pts.len() != seq.len() {
        return Err(format!("{} points for {} bases", pts.len(), seq.len()));
    }
    let exact = model::cgr_points_exact(seq, 110).ok_or("foreign byte in a record that was accepted")?;
    let mut prev = (s / 2.0, s / 2.0);
    let mut used_exact = false;
    let mut used_sub = false;
    for (j, p) in pts.iter().enumerate() {
        let (x, y) = (p[0], p[1]);
        let (cx, cy) = model::cgr_corner(seq[j]).unwrap();
        // (a) the midpoint rule, on the output's own previous point
        let ex = (cx as f64 * s + prev.0) / 2.0;
        let ey = (cy as f64 * s + prev.1) / 2.0;
        if x != ex || y != ey {
            return Err(format!(
                "point {j} is ({x},{y}); the midpoint of point {} ({},{}) and the corner of {:?} is ({ex},{ey})",
                j as i64 - 1,
                prev.0,
                prev.1,
                seq[j] as char
            ));
        }
        // (b) exact dyadic value while it is exactly representable
        if let Some(&(xn, yn, sh)) = exact.get(j) {
            let bits = 128 - xn.max(yn).leading_zeros();
            if bits as f64 + s.log2().ceil() <= 52.0 {
                used_exact = true;
                let dx = model::dyadic_to_f64(xn, sh, s);
                let dy = model::dyadic_to_f64(yn, sh, s);
                if x != dx || y != dy {
                    return Err(format!("point {j} is ({x},{y}); exact chaos-game value is ({dx},{dy})"));
                }
            }
        }
        // (c) the last t bases confine the point to a sub-square of side s/2^t
        let t = (j + 1).min(20);
        let mut bx = 0.0f64;
        let mut by = 0.0f64;
        for r in 1..=t {
            let (ux, uy) = model::cgr_corner(seq[j + 1 - r]).unwrap();
            bx += ux as f64 / 2f64.powi(r as i32);
            by += uy as f64 / 2f64.powi(r as i32);
        }
        let side = s / 2f64.powi(t as i32);
        let eps = s * 1e-12;
        if x < bx * s - eps || x > bx * s + side + eps || y < by * s - eps || y > by * s + side + eps {
            return Err(format!(
                "point {j} = ({x},{y}) is outside the sub-square [{},{}]x[{},{}] fixed by the last {t} bases",
                bx * s,
                bx * s + side,
                by * s,
                by * s + side
            ));
        }
        used_sub |= j >= 60;
        prev = (x, y);
    }
    Ok((used_exact, used_sub))
}

impl Engine for C11 {
    fn prop(&self) -> &'static str {
        "C11"
    }

    fn generate(&self, rng: &mut Rng, tier: &str) -> Case {
        gen_cgr_case(rng, tier, "C11", 0)
    }

    fn execute(&self, case: &Case, sb: &Sandbox) -> Outcome {
        let mut out = Outcome::default();
        let dir = sb.fresh("c11");
        let cfg = CgrCfg::from_params(&case.params);
        let out_path = dir.join("out.cgr");
        if stale_output(&out_path, case.params.get("stale").and_then(|v| v.as_u64()).unwrap_or(0)) {
            out.probe("stale_output_file", 1);
        }
        let (r, ro) = run_cgr(
            &dir,
            "in",
            &case.records,
            &case.container,
            &cfg,
            &case.sched,
            &case.io,
            None,
            steps_for(case),
            &out_path,
        );
        out.absorb(&r, true);
        if let Some(e) = ro.exec_error {
            out.fail("exec", format!("execution failed (deadlock or step budget): {e}"));
            return out;
        }
        let bad = case.params.get("bad_record").and_then(|v| v.as_i64()).unwrap_or(-1);
        let finished_ok = matches!(ro.status, Ok(Ok(())));
        if bad < 0 {
            match &ro.status {
                Err(p) => {
                    out.fail("panic", format!("vectorise panicked on a clean input: {p}"));
                    return out;
                }
                Ok(Err(e)) => {
                    out.fail("error", format!("vectorise returned Err on a clean input: {e}"));
                    return out;
                }
                Ok(Ok(())) => {}
            }
        } else {
            out.probe("rejection_case", 1);
            if finished_ok {
                out.fail(
                    "not_rejected",
                    format!("record {bad} contains a non-nucleotide byte but vectorise finished normally"),
                );
                return out;
            }
        }
        let bytes = ro.output.unwrap_or_default();
        out.note(&bytes);
        let text = match std::str::from_utf8(&bytes) {
            Ok(t) => t,
            Err(_) => {
                out.fail("format", "output is not UTF-8".into());
                return out;
            }
        };
        if !text.is_empty() && !text.ends_with('\n') {
            out.fail("format", "output does not end with a newline".into());
            return out;
        }
        let lines: Vec<&str> = text.lines().collect();
        if bad < 0 {
            if lines.len() != case.records.len() {
                out.fail("row_count", format!("{} rows for {} records", lines.len(), case.records.len()));
                return out;
            }
        } else if lines.len() > bad as usize {
            out.fail(
                "rejected_record_has_row",
                format!("record {bad} is rejected, yet the output holds {} rows", lines.len()),
            );
            return out;
        }
        let s = cfg.vecsize as f64;
        for (i, line) in lines.iter().enumerate() {
            let pts = match parse_tuples(line, 2) {
                Ok(p) => p,
                Err(e) => {
                    out.fail("format", format!("row {i}: {e}"));
                    return out;
                }
            };
            match check_cgr_row(case.records[i].seq.as_bytes(), s, &pts) {
                Ok((ex, sub)) => {
                    if ex {
                        out.probe("exact_dyadic_points_checked", 1);
                    }
                    if sub {
                        out.probe("points_beyond_exact_range", 1);
                    }
                }
                Err(e) => {
                    out.fail(
                        "point",
                        format!("row {i} (S={}, threads={}, memory={}): {e}", cfg.vecsize, cfg.threads, cfg.memory),
                    );
                    return out;
                }
            }
        }
        if out.stats.par_batches >= 3 {
            out.probe("batches>=3", 1);
        }
        if cfg.stdin {
            out.probe("stdin_input", 1);
        }
        if cfg.vecsize & (cfg.vecsize - 1) != 0 {
            out.probe("square_not_power_of_two", 1);
        }
        out
    }

    fn required_probes(&self) -> Vec<&'static str> {
        vec!["stale_output_file", 
            "rejection_case",
            "exact_dyadic_points_checked",
            "points_beyond_exact_range",
            "batches>=3",
            "square_not_power_of_two",
        ]
    }

    fn real_components(&self) -> Vec<&'static str> {
        vec![
            "composition::cgr::CgrComputer (vectorise, batch loop, cgr_maps)",
            "ktio::seq, bio, flate2, std::fs",
        ]
    }

    fn nontrivial_rule(&self) -> &'static str {
        "a case is records x container x delivery plan x (square size, threads, batch limit, file|stdin, optional foreign byte) x schedule; non-trivial = at least 2 records with bases AND at least one scheduling decision among >= 2 runnable tasks; distinct = distinct (workload hash, schedule hash) pairs"
    }

    fn is_nontrivial(&self, case: &Case, out: &Outcome) -> bool {
        case.records.iter().filter(|r| !r.seq.is_empty()).count() >= 2 && out.log.choice_steps > 0
    }
}
