//! C05 -- oligo rows follow input order for any threads, batching, writer path,
//! container and worker interleaving.

use crate::common::*;
use crate::exec::*;
use crate::gen::*;
use crate::params;
use crate::pipelines::*;
use verif_rt::rng::Rng;

pub struct C05;

pub fn gen_oligo_case(rng: &mut Rng, tier: &str, prop: &str) -> Case {
    let thorough = tier == "thorough";
    let k = if thorough {
        *rng.pick(&[1usize, 2, 3, 3, 4, 4, 5, 6, 7])
    } else {
        *rng.pick(&[1usize, 2, 3, 3, 4, 4, 5, 6])
    };
    let g = RecGen {
        min_records: 1,
        max_records: if thorough { 300 } else { 24 },
        max_len: if thorough { 1500 } else { 200 },
        marks: vec![k - 1, k, k + 1, 2 * k],
        alpha_w: [60, 15, 10, 8, 2, 4, 1],
        min_len: 0,
        dup_pct: 3,
            tab_desc_pct: 0,
            utf8_id_pct: 0,
            dup_id_pct: 0,
            mega_1_in: 15000,
            twin_mega_1_in: 0,
            many_1_in: 1500,
            overflow_top_w: 1,
    };
    let mut records = g.gen(rng);
    // keep wide rows affordable: k >= 6 means thousands of columns per row
    if k >= 6 {
        records.truncate(if thorough { 40 } else { 8 });
    }
    let stdin = rng.chance(1, 3);
    let norm = !rng.chance(1, 3);
    let mut container = gen_container(rng, &records, false, !stdin);
    if stdin {
        container.gz = None;
    }
    let memory = super::c11::gen_memory_rec(rng, &records);
    let threads = gen_threads(rng);
    let sched = Sched::draw(rng, 5 * records.len() as u64 + 4 * threads as u64 + 8);
    Case {
        prop: prop.into(),
        tier: tier.into(),
        verif_seed: 0,
        index: 0,
        run_seed: 0,
        records,
        container,
        io: gen_io(rng, false),
        sched,
        params: params! {
            "k" => k,
            "threads" => threads,
            "memory" => memory,
            "norm" => norm,
            "header" => rng.chance(1, 2),
            "delim" => *rng.pick(&[",", "\t", " "]),
            "stdin" => stdin,
            "order" => if rng.chance(1, 2) { 0 } else { rng.range(1, 1 << 40) },
            "stale" => if rng.chance(1, 8) { rng.range(1, 1 << 40) } else { 0 },
        },
        extra: vec![],
    }
}

/// Split `bytes` into its first line (without terminator) and the rest.
pub fn split_first_line(bytes: &[u8]) -> Option<(&[u8], &[u8])> {
    let p = bytes.iter().position(|&b| b == b'\n')?;
    Some((&bytes[..p], &bytes[p + 1..]))
}

pub fn first_diff(a: &[u8], b: &[u8]) -> usize {
    a.iter().zip(b.iter()).position(|(x, y)| x != y).unwrap_or(a.len().min(b.len()))
}

impl Engine for C05 {
    fn prop(&self) -> &'static str {
        "C05"
    }

    fn generate(&self, rng: &mut Rng, tier: &str) -> Case {
        gen_oligo_case(rng, tier, "C05")
    }

    fn execute(&self, case: &Case, sb: &Sandbox) -> Outcome {
        let mut out = Outcome::default();
        let dir = sb.fresh("c05");
        let cfg = OligoCfg::from_params(&case.params);
        let out_path = dir.join("out.kmers");
        if stale_output(&out_path, case.params.get("stale").and_then(|v| v.as_u64()).unwrap_or(0)) {
            out.probe("stale_output_file", 1);
        }
        let (r, ro) = run_oligo(
            &dir,
            "in",
            &case.records,
            &case.container,
            &cfg,
            &case.sched,
            &case.io,
            None,
            steps_for(case),
            &out_path,
        );
        out.absorb(&r, true);
        if let Some(e) = ro.exec_error {
            out.fail("exec", format!("execution failed (deadlock or step budget): {e}"));
            return out;
        }
        match &ro.status {
            Err(p) => {
                out.fail("panic", format!("vectorise panicked: {p}"));
                return out;
            }
            Ok(Err(e)) => {
                out.fail("error", format!("vectorise returned Err: {e}"));
                return out;
            }
            Ok(Ok(())) => {}
        }
        let actual = match ro.output {
            Some(a) => a,
            None => {
                out.fail("no_output", "no output file".into());
                return out;
            }
        };
        out.note(&actual);
        // sequential specification: the row of each record alone
        let seqs: Vec<String> = case.records.iter().map(|r| r.seq.clone()).collect();
        let rows = match singleton_rows(&dir, &seqs, cfg.k, cfg.norm, &cfg.delim, &mut out) {
            Ok(r) => r,
            Err(e) => {
                out.fail("reference", e);
                return out;
            }
        };
        for (i, row) in rows.iter().enumerate() {
            let one_line = row.last() == Some(&b'\n') && row.iter().filter(|&&b| b == b'\n').count() == 1;
            if !one_line {
                out.fail(
                    "reference_row",
                    format!(
                        "record {i} alone does not yield exactly one row: {:?}",
                        clip(&String::from_utf8_lossy(row), 120)
                    ),
                );
                return out;
            }
        }
        let expected: Vec<u8> = rows.concat();
        let body: &[u8] = if cfg.header {
            match split_first_line(&actual) {
                None => {
                    out.fail("header", "header requested but the output has no complete first line".into());
                    return out;
                }
                Some((h, rest)) => {
                    let cols = rows[0][..rows[0].len() - 1]
                        .split(|&b| b == cfg.delim.as_bytes()[0])
                        .count();
                    let hcols = h.split(|&b| b == cfg.delim.as_bytes()[0]).count();
                    if hcols != cols || h.is_empty() {
                        out.fail(
                            "header",
                            format!("header line has {hcols} fields, rows have {cols}"),
                        );
                    }
                    rest
                }
            }
        } else {
            &actual
        };
        if body != expected.as_slice() {
            let d = first_diff(body, &expected);
            let row_len = rows[0].len().max(1);
            out.fail(
                "rows",
                format!(
                    "output differs from the rows of the records in input order: {} bytes vs {} expected, first difference at byte {} (about row {}); writer={} threads={} memory={} container={}",
                    body.len(),
                    expected.len(),
                    d,
                    d / row_len,
                    if cfg.uses_mmap() { "mmap" } else { "batch" },
                    cfg.threads,
                    cfg.memory,
                    case.container.describe()
                ),
            );
        }
        // probes
        let mut distinct = rows.clone();
        distinct.sort();
        distinct.dedup();
        if distinct.len() == rows.len() && rows.len() >= 2 {
            out.probe("rows_pairwise_distinct", 1);
        }
        if cfg.uses_mmap() {
            out.probe("writer_mmap", 1);
            if out.stats.mmap_out_of_order > 0 {
                out.probe("mmap_rows_written_out_of_order", 1);
            }
        } else {
            out.probe("writer_batch", 1);
            if out.stats.par_batches >= 3 {
                out.probe("batches>=3", 1);
            }
        }
        if cfg.threads > case.records.len() {
            out.probe("more_workers_than_records", 1);
        }
        if cfg.stdin {
            out.probe("stdin_input", 1);
        }
        out
    }

    fn required_probes(&self) -> Vec<&'static str> {
        vec!["stale_output_file", 
            "writer_mmap",
            "writer_batch",
            "mmap_rows_written_out_of_order",
            "batches>=3",
            "rows_pairwise_distinct",
            "more_workers_than_records",
            "stdin_input",
        ]
    }

    fn real_components(&self) -> Vec<&'static str> {
        vec![
            "composition::oligo::OligoComputer (both writers)",
            "ktio::seq, ktio::mmap (real memmap2 mapping of a real file)",
            "kmer::kmer::KmerGenerator",
            "bio, flate2, std::fs",
        ]
    }

    fn nontrivial_rule(&self) -> &'static str {
        "a case is records x container x delivery plan x (k, threads, batch limit, norm, header, delimiter, file|stdin) x schedule; non-trivial = at least 2 records AND at least one scheduling decision among >= 2 runnable tasks in the main execution; distinct = distinct (workload hash, schedule hash) pairs"
    }

    fn is_nontrivial(&self, case: &Case, out: &Outcome) -> bool {
        case.records.len() >= 2 && out.log.choice_steps > 0
    }
}
